#!/bin/bash
# usage: tools/runall.sh [quick|thorough] [seed] [property ...]  - runs the claimed checks (default: all) sequentially
tier="${1:-quick}"; seed="${2:-1}"; shift 2 2>/dev/null
cd /verif
props="$*"
[ -z "$props" ] && props=$(python3 -c "import json;print(' '.join(c['property_id'] for c in json.load(open('MANIFEST.json'))['checks']))")
for p in $props; do
  t0=$(date +%s)
  out=$(VERIF_SEED=$seed ./check $p --tier $tier 2>&1); rc=$?
  echo "$p rc=$rc $(( $(date +%s)-t0 ))s $(echo "$out" | tail -1)"
  if [ $rc -ne 0 ]; then echo "$out" | grep -E "VIOLATION|INCONCLUSIVE|^>>" | head -8; fi
done
