#!/bin/bash
# usage: tools/seedcheck.sh <patch-file> <prop> <seed> [seed...]  - detection of one change across VERIF_SEED values (scratch worktree)
patch=$(realpath "$1"); prop="$2"; shift 2
scratch=$(mktemp -d /dev/shm/sc-XXXX); repo=$scratch/repo
git -C /repo worktree add -q --detach $repo HEAD || exit 3
trap 'git -C /repo worktree remove --force $repo; rm -rf $scratch' EXIT
( cd $repo && git apply $patch ) || { echo "patch does not apply"; exit 3; }
for seed in "$@"; do
  VERIF_SEED=$seed VERIF_REPO=$repo VERIF_NOEVIDENCE=1 /verif/check $prop --tier quick >$scratch/o.txt 2>&1; rc=$?
  echo "seed $seed: rc=$rc $(tail -1 $scratch/o.txt)"; grep -m2 ">> " $scratch/o.txt | cut -c1-400
done
