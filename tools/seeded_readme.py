#!/usr/bin/env python3
"""Regenerates the table in seeded/README.md (between the TABLE markers) from the meta.json and
notes.md of every directory under seeded/. The prose around the table is kept."""
import json, os, re, glob
root = "/verif/seeded"
rows = []
def key(d):
    m = re.match(r"s(\d*)-C(\d+)", os.path.basename(d))
    return (int(m.group(1) or 1), int(m.group(2)))
for d in sorted(glob.glob(root + "/s*-C*"), key=key):
    meta = json.load(open(d + "/meta.json"))
    c = meta["confirmed"]
    what = ""
    if os.path.exists(d + "/notes.md"):
        for line in open(d + "/notes.md"):
            line = line.strip()
            if line and not line.startswith("#") and not line.startswith("```") and not line.startswith("|"):
                what = re.sub(r"\s+", " ", line)[:160]
                break
    v = ", ".join("%s: %s" % (k, x.split(" ")[0] if len(x) > 40 else x) for k, x in meta.get("quick_tier_verdicts", {}).items())
    if meta.get("thorough_tier_verdicts"):
        v += "; thorough: " + ", ".join("%s: %s" % (k, x.split(":")[0]) for k, x in meta["thorough_tier_verdicts"].items())
    rows.append("| %s | %s | %s/%s | %s/%s | %s | %s |" % (meta["id"], meta["breaks_property"], c["pinned_suite_with_change"].split(" ")[0],
                c["upstream_server_tests_with_change"].split(" ")[0], c["demo_with_change"], c["demo_without_change"], v, what.replace("|", "/")))
table = "| id | property | existing tests with change (pinned/upstream) | demo with/without change | quick-tier verdicts | what it is |\n|---|---|---|---|---|---|\n" + "\n".join(rows)
p = root + "/README.md"
s = open(p).read()
if "<!-- TABLE -->" in s:
    s = re.sub(r"<!-- TABLE -->.*<!-- /TABLE -->", "<!-- TABLE -->\n" + table + "\n<!-- /TABLE -->", s, flags=re.S)
else:
    s = re.sub(r"\| id \| property \|.*?\n\n", "<!-- TABLE -->\n" + table + "\n<!-- /TABLE -->\n\n", s, count=1, flags=re.S)
open(p, "w").write(s)
print(len(rows), "rows")
