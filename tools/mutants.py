#!/usr/bin/env python3
"""Sensitivity sweep: applies each hand-made breaking change (textual
replacement) or fix revert to a SCRATCH COPY of /repo (never to /repo itself),
checks that it builds, records whether the repository's own tests notice it,
and runs the quick tier of the properties it should break. Results go to
/verif/mutants/README.md.

usage: tools/mutants.py [name-substring ...]      (default: all)
"""
import json
import os
import shutil
import subprocess
import sys
import tempfile
import time

ROOT = "/verif"
ENV = dict(os.environ, GOFLAGS="-mod=mod", GOPROXY="off", GOSUMDB="off", GOTOOLCHAIN="local")

# (name, properties expected to catch it, file, old, new, note)
M = [
    ("c01-halfwidth-lower-431", ["C01", "C20"], "server/report_listener_udp.go", "int64(report.Timeslot) < int64(now)-432", "int64(report.Timeslot) < int64(now)-431", "acceptance half-width 431 on the past side"),
    ("c01-halfwidth-upper-433", ["C01", "C20"], "server/report_listener_udp.go", "int64(report.Timeslot) > int64(now)+432", "int64(report.Timeslot) > int64(now)+433", "acceptance half-width 433 on the future side"),
    ("c01-window-start-exclusive", ["C01"], "server/report_listener_udp.go", "if report.Timeslot < server.equipmentReportsOffset {", "if report.Timeslot <= server.equipmentReportsOffset {", "first slot of the window refused"),
    ("c01-sentinel-1-accepted", ["C01"], "server/report_listener_udp.go", "if report.PowerOutput == 0 || report.PowerOutput == 1 {", "if report.PowerOutput == 0 {", "power 1 integrated"),
    ("c01-gca-key-also-signs-reports", ["C01"], "server/report_listener_udp.go", "if !glow.Verify(equipment.PublicKey, sb, report.Signature) {", "if !glow.Verify(equipment.PublicKey, sb, report.Signature) && !glow.Verify(server.gcaPubkey, sb, report.Signature) {", "reports signed by the GCA key accepted"),
    ("c01-uint32-window-arith", ["C20", "C01"], "server/report_listener_udp.go", "if int64(report.Timeslot) < int64(now)-432 ||", "if report.Timeslot < now-432 ||", "lower clock bound in uint32 (wraps for clocks below 432)"),
    ("equivalent-c01-uint32-upper-bound", ["C20", "C01"], "server/report_listener_udp.go", "int64(report.Timeslot) > int64(now)+432 {", "report.Timeslot > now+432 {", "EQUIVALENT on reachable states: differs only for a window offset within 432 of 2^32 (2 million rotations)"),
    ("c02-last-writer-wins", ["C02"], "server/report_listener_udp.go", "\t\tserver.equipmentReports[report.ShortID][report.Timeslot-server.equipmentReportsOffset].PowerOutput = 1\n\t}\n\t// Ban the report", "\t\tserver.equipmentReports[report.ShortID][report.Timeslot-server.equipmentReportsOffset] = report\n\t}\n\t// Ban the report", "second distinct report replaces the first"),
    ("c02-capacity-ge", ["C02"], "server/report_listener_udp.go", "report.PowerOutput > server.equipment[report.ShortID].Capacity*MaxCapacityBuffer/100", "report.PowerOutput >= server.equipment[report.ShortID].Capacity*MaxCapacityBuffer/100", "value exactly at the limit banned"),
    ("c02-identical-by-power-only", ["C02"], "server/report_listener_udp.go", "if server.equipmentReports[report.ShortID][report.Timeslot-server.equipmentReportsOffset] == report {", "if server.equipmentReports[report.ShortID][report.Timeslot-server.equipmentReportsOffset].PowerOutput == report.PowerOutput {", "a second signature over the same content treated as a replay"),
    ("c03-second-half-not-blanked", ["C03", "C04"], "server/equipment.go", "\t\tcopy(report[2016:], blankReports[:])\n", "\t\t_ = blankReports\n", "rotation duplicates the second half"),
    ("c03-stats-off-by-one", ["C03"], "server/api_device_stats.go", "\t\tx = 2016\n", "\t\tx = 2015\n", "second live week shifted by one slot"),
    ("c03-impact-not-rotated", ["C03"], "server/equipment.go", "\t\tcopy(rates[:2016], rates[2016:])\n", "", "impact rates of the second half lost at rotation"),
    ("c04-offset-not-restored", ["C04", "C03"], "server/equipment.go", "gcas.equipmentReportsOffset = ads.TimeslotOffset + 2016", "gcas.equipmentReportsOffset = ads.TimeslotOffset", "window offset one week short after restart"),
    ("c04-ban-not-replayed", ["C04", "C06"], "server/equipment.go", "\t\tdelete(gcas.equipmentShortID, current.PublicKey)\n\t\tgcas.equipmentBans[ea.ShortID] = struct{}{}\n", "\t\tdelete(gcas.equipmentShortID, current.PublicKey)\n", "a ban is forgotten at restart (later authorizations for the id accepted again)"),
    ("c06-duplicate-check-loosened", ["C06"], "server/equipment.go", "\t\tif current == ea {\n", "\t\tif current.PublicKey == ea.PublicKey && current.Capacity == ea.Capacity && current.Latitude == ea.Latitude && current.Longitude == ea.Longitude {\n", "conflict differing only in debt/expiration/fee treated as duplicate"),
    ("c06-signature-skipped-for-id0", ["C06", "C07"], "server/api_equipment_auth.go", "\tif !isValid {\n\t\treturn errors.New(\"invalid signature on EquipmentAuthorization\")", "\tif !isValid && ea.ShortID != 0 {\n\t\treturn errors.New(\"invalid signature on EquipmentAuthorization\")", "authorization for id 0 accepted without a valid signature"),
    ("c07-reregistration-with-other-key", ["C07"], "server/api_server_gca_auth.go", "\tif gcas.gcaPubkeyAvailable {\n", "\tif gcas.gcaPubkeyAvailable && gr.GCAKey == gcas.gcaPubkey {\n", "a second registration with a different key replaces the GCA"),
    ("c07-verify-against-submitted-key", ["C07"], "server/api_server_gca_auth.go", "\tisValid := glow.Verify(gcas.gcaTempKey, sb, gr.Signature)\n\tif !isValid {\n\t\tgcas.logger.Warn", "\tisValid := glow.Verify(gcas.gcaTempKey, sb, gr.Signature) || glow.Verify(gr.GCAKey, sb, gr.Signature)\n\tif !isValid {\n\t\tgcas.logger.Warn", "self-signed registration accepted"),
    ("c08-bitfield-bit-order", ["C08", "C10"], "server/sync_listener_tcp.go", "bitfield[byteIndex] |= 1 << bitIndex", "bitfield[byteIndex] |= 1 << (7 - bitIndex)", "bit order inside each bitfield byte reversed on the server"),
    ("c08-newest-never-resent", ["C08"], "client/reports.go", "for i := uint32(0); i <= lastIndex && int(i)/8 < len(bitfield); i++ {", "for i := uint32(0); i < lastIndex && int(i)/8 < len(bitfield); i++ {", "the newest reading is never retransmitted"),
    ("c08-sign-extension-dropped", ["C08"], "client/reports.go", "Energy:   uint64(int32(powerOutput)),", "Energy:   uint64(powerOutput),", "negative readings retransmitted without sign extension"),
    ("c09-overwrite-allowed", ["C09"], "client/history.go", "\tif current != 0 {\n\t\treturn fmt.Errorf(\"unable to save reading because we already have a different reading for this timeslot\")\n\t}\n", "", "a stored reading can be overwritten"),
    ("c09-send-even-if-save-fails", ["C09"], "client/reports.go", "\t\t\t\terr := c.staticSaveReading(record.Timeslot, uint32(record.Energy))\n\t\t\t\tif err != nil {\n\t\t\t\t\tcontinue\n\t\t\t\t}\n\t\t\t\tif record.Timeslot > latestRecord {\n\t\t\t\t\tc.staticSendReport", "\t\t\t\tc.staticSaveReading(record.Timeslot, uint32(record.Energy))\n\t\t\t\tif record.Timeslot > latestRecord {\n\t\t\t\t\tc.staticSendReport", "a conflicting second reading for a new slot is sent anyway"),
    ("c10-device-key-binding-skipped", ["C10"], "client/reports.go", "\tif equipmentKey != c.staticPubKey {\n", "\tif false && equipmentKey != c.staticPubKey {\n", "reply for another device accepted"),
    ("c10-freshness-48h-past", ["C10"], "client/reports.go", "now-24*3600 > signingTime", "now-48*3600 > signingTime", "replies up to 48 h old accepted"),
    ("c10-migration-entries-unchecked", ["C10", "C17"], "client/reports.go", "\t\t\tverify = glow.Verify(newGCA, sb, as.GCAAuthorization)\n", "\t\t\tverify = true\n", "server entries of a migration order not verified"),
    ("c11-ban-overwritten", ["C11", "C17"], "client/reports.go", "\t\t\tif !exists || s.Banned {\n\t\t\t\tc.gcaServers[s.PublicKey] = GCAServer{", "\t\t\tif !exists || s.Banned || !s.Banned {\n\t\t\t\tc.gcaServers[s.PublicKey] = GCAServer{", "a GCA-signed non-banned entry un-bans a server"),
    ("c11-failed-servers-retried", ["C11"], "client/reports.go", "\t\tfailedServers[gcasKey] = struct{}{}\n", "", "a failed server is dialled again in the same round"),
    ("c13-authorized-servers-aliasing", ["C13", "C17"], "server/authorized_servers.go", "\tas := make([]AuthorizedServer, len(gcas.gcaServers.servers))\n\tcopy(as, gcas.gcaServers.servers)\n\treturn as", "\treturn gcas.gcaServers.servers", "copy-out replaced by aliasing"),
    ("c13-stats-lock-dropped", ["C13"], "server/api_device_stats.go", "\tvar stats AllDeviceStats\n\ts.mu.Lock()\n\tif tso < s.equipmentReportsOffset {\n\t\trelativeTSO := tso - s.equipmentHistoryOffset\n\t\tstats = s.equipmentStatsHistory[relativeTSO/2016]", "\tvar stats AllDeviceStats\n\tarchived := tso < s.equipmentReportsOffset\n\ts.mu.Lock()\n\tif archived {\n\t\trelativeTSO := tso - s.equipmentHistoryOffset\n\t\tstats = s.equipmentStatsHistory[relativeTSO/2016]", "window offset read before taking the lock (check-then-act)"),
    ("c15-report-prefix-changed", ["C15", "C01"], "glow/report.go", "prefix := []byte(\"EquipmentReport\")", "prefix := []byte(\"EquipmentReporT\")", "signing prefix changed consistently on both sides"),
    ("c15-fee-big-endian", ["C15"], "glow/equipment_authorization.go", "binary.LittleEndian.PutUint64(data[76:84], ea.ProtocolFee)", "binary.BigEndian.PutUint64(data[76:84], ea.ProtocolFee)", "one field big-endian (decoder adjusted too)"),
    ("c16-sentinel-boundary-inclusive", ["C16"], "client/reports.go", "} else if energyF64 > -24 && energyF64 < 24 {", "} else if energyF64 >= -24 && energyF64 <= 24 {", "readings of exactly +-24 become the sentinel"),
    ("c16-divide-before-multiply", ["C16"], "client/reports.go", "energy = uint64(c.energyMultiplier * energyF64 / c.energyDivider)", "energy = uint64(energyF64 / c.energyDivider * c.energyMultiplier)", "divide before multiply (different rounding)"),
    ("c16-floor-instead-of-trunc", ["C16"], "client/reports.go", "energy = uint64(c.energyMultiplier * energyF64 / c.energyDivider)", "energy = uint64(int64(math.Floor(c.energyMultiplier * energyF64 / c.energyDivider)))", "negative readings rounded down instead of toward zero"),
    ("c17-server-unban-accepted", ["C17"], "server/api_authorized_servers.go", "\t\t\tif s.gcaServers.servers[i].Banned {\n\t\t\t\ts.gcaServers.mu.Unlock()\n\t\t\t\tjson.NewEncoder(w).Encode(map[string]string{\"status\": \"success\"})\n\t\t\t\ts.logger.Info(\"received authorization for server that is banned\")\n\t\t\t\treturn\n\t\t\t}\n\t\t\tif !server.Banned {", "\t\t\tif !server.Banned && !s.gcaServers.servers[i].Banned {", "a banned server entry can be replaced by a non-banned one"),
    ("c17-adopt-without-persisting-id", ["C17"], "client/reports.go", "\t\terr = os.WriteFile(filepath.Join(c.staticBaseDir, ShortIDFile), shortIDBytes[:], 0644)\n\t\tif err != nil {\n\t\t\tpanic(err)\n\t\t}\n", "", "new short id adopted in memory but not written to disk"),
    ("c18-newest-evicted-first", ["C18"], "glow/event_log.go", "return updateOrder[i].updates[len(updateOrder[i].updates)-1].Before(updateOrder[j].updates[len(updateOrder[j].updates)-1]) // Ascending sort", "return updateOrder[i].updates[len(updateOrder[i].updates)-1].After(updateOrder[j].updates[len(updateOrder[j].updates)-1]) // Ascending sort", "most recently updated lines evicted first"),
    ("equivalent-c18-sort-guard", ["C18"], "glow/event_log.go", "\tif sizeRequired+l.logSizeBytes > l.logMaxBytes {\n", "\tif sizeRequired+l.logSizeBytes >= l.logMaxBytes {\n", "EQUIVALENT: only the guard that builds the eviction order changes, the eviction loop does not"),
    ("c18-evicts-when-exactly-full", ["C18"], "glow/event_log.go", "\tfor sizeRequired+l.logSizeBytes > l.logMaxBytes {\n", "\tfor sizeRequired+l.logSizeBytes >= l.logMaxBytes && len(updateOrder) > 0 {\n", "a line that fits exactly still evicts the oldest line"),
    ("c19-expiry-keeps-nothing", ["C19", "C14"], "glow/rate_limiter.go", "\t\tif t.After(exp) {\n", "\t\tif t.Before(exp) {\n", "expiry comparison inverted"),
    ("c20-trigger-3650", ["C20"], "server/equipment.go", "\t\t\tif int64(now)-int64(ero) > 3200 {", "\t\t\tif int64(now)-int64(ero) > 3650 {", "rotation trigger too late for the window inequality"),
    ("c20-genesis-refused", ["C20"], "glow/timeslot_u.go", "\tif time < GenesisTime {", "\tif time <= GenesisTime {", "the genesis second itself refused"),
    ("c20-slot-start-off", ["C20"], "glow/timeslot_u.go", "return GenesisTime + int64(timeslot*300)", "return GenesisTime + int64(timeslot*300) + 1", "slot start off by one second"),
    ("c14-publicfiles-reordered", ["C14"], "server/consts.go", "\"allDeviceStats.dat\", \"equipment-reports.dat\", \"equipment-authorizations.dat\", \"gcaPubKey.dat\"", "\"allDeviceStats.dat\", \"equipment-authorizations.dat\", \"equipment-reports.dat\", \"gcaPubKey.dat\"", "reports archived after authorizations"),
    ("equivalent-c05-memory-before-disk-auth", ["C05"], "server/equipment.go", "\tserializedData := ea.Serialize()\n", "\tserializedData := ea.Serialize()\n\tif !exists {\n\t\tgcas.equipmentShortID[ea.PublicKey] = ea.ShortID\n\t}\n", "EQUIVALENT under the process-crash model (memory is lost at a crash; the write cannot fail in the sandbox)"),
    ("c12-stats-index-unchecked", ["C12", "C03"], "server/api_device_stats.go", "\tif tso < s.equipmentReportsOffset {\n\t\trelativeTSO", "\tif tso <= s.equipmentReportsOffset && tso/2016 <= uint32(len(s.equipmentStatsHistory)) && s.equipmentReportsOffset > 0 {\n\t\trelativeTSO", "first live week looked up in the archive (index out of range)"),
]

EXTRA = {
    "c15-fee-big-endian": [("glow/equipment_authorization.go", "ea.ProtocolFee = binary.LittleEndian.Uint64(data[76:84])", "ea.ProtocolFee = binary.BigEndian.Uint64(data[76:84])")],
    "c16-floor-instead-of-trunc": [("client/reports.go", "\t\"io\"\n", "\t\"io\"\n\t\"math\"\n")],
}

REVERTS = [
    ("revert-D1-52989a6", ["C18"], "52989a6"), ("revert-D2-77cb9a1", ["C01", "C12", "C20"], "77cb9a1"),
    ("revert-D13-62053da", ["C02"], "62053da"), ("revert-D6-4c10d88", ["C06"], "4c10d88"),
    ("revert-D16-68e6c1b", ["C04", "C06"], "68e6c1b"), ("revert-D5-b05b42e", ["C03"], "b05b42e"),
    ("revert-D3-75cec87", ["C12"], "75cec87"), ("revert-D10-b066f00", ["C16"], "b066f00"),
    ("revert-D8-5d92ec9", ["C11"], "5d92ec9"), ("revert-D9-0f3e06f", ["C11"], "0f3e06f"),
    ("revert-D4-3277a4a", ["C12"], "3277a4a"), ("revert-D11-00c2acb", ["C13"], "00c2acb"),
    ("revert-D12-b9c77fe", ["C13"], "b9c77fe"), ("revert-D7-b0c00a0", ["C05"], "b0c00a0"),
    ("revert-D17-f2c22b2", ["C08"], "f2c22b2"),
]


def sh(cmd, cwd=None, timeout=900):
    p = subprocess.run(cmd, shell=True, cwd=cwd, env=ENV, stdout=subprocess.PIPE, stderr=subprocess.STDOUT, text=True, timeout=timeout)
    return p.returncode, p.stdout


def run_one(name, props, apply):
    scratch = tempfile.mkdtemp(prefix="mut-", dir="/dev/shm" if os.path.isdir("/dev/shm") else None)
    repo = os.path.join(scratch, "repo")
    try:
        sh("git -C /repo worktree add -q --detach %s HEAD" % repo)
        ok, why = apply(repo)
        if not ok:
            return {"name": name, "status": "NOT-APPLICABLE", "detail": why}
        rc, out = sh("go build ./... && go build -tags test ./...", cwd=repo)
        if rc != 0:
            return {"name": name, "status": "DOES-NOT-BUILD", "detail": out[-400:]}
        rc1, _ = sh("go test -vet=off -count=1 ./glow", cwd=repo)
        if rc1 != 0:
            rc1, _ = sh("go test -vet=off -count=1 ./glow", cwd=repo)
        rc2, _ = sh("go test -tags test -count=1 ./server", cwd=repo, timeout=300)
        res = {"name": name, "pinned_suite_passes": rc1 == 0, "upstream_server_tests_pass": rc2 == 0, "checks": {}}
        for p in props:
            env = dict(ENV, VERIF_REPO=repo, VERIF_NOEVIDENCE="1")
            pr = subprocess.run(["./check", p, "--tier", "quick"], cwd=ROOT, env=env, stdout=subprocess.PIPE, stderr=subprocess.STDOUT, text=True, timeout=1800)
            res["checks"][p] = {0: "MISSED", 1: "CAUGHT", 2: "INCONCLUSIVE"}.get(pr.returncode, "rc%d" % pr.returncode)
            if pr.returncode == 2:
                res.setdefault("detail", "")
                res["detail"] += pr.stdout[-600:]
        res["status"] = "CAUGHT" if any(v == "CAUGHT" for v in res["checks"].values()) else "MISSED"
        return res
    finally:
        sh("git -C /repo worktree remove --force %s" % repo)
        shutil.rmtree(scratch, ignore_errors=True)


def main():
    want = sys.argv[1:]
    results = []
    jobs = []
    for name, props, f, old, new, note in M:
        def apply(repo, name=name, f=f, old=old, new=new):
            edits = [(f, old, new)] + EXTRA.get(name, [])
            for ff, o, n in edits:
                p = os.path.join(repo, ff)
                s = open(p).read()
                if s.count(o) != 1:
                    return False, "pattern occurs %d times in %s" % (s.count(o), ff)
                open(p, "w").write(s.replace(o, n))
            return True, ""
        jobs.append((name, props, apply, note))
    for name, props, commit in REVERTS:
        def apply(repo, commit=commit):
            rc, out = sh("git show %s --format= -- . | git apply -R" % commit, cwd=repo)
            return rc == 0, out[-200:]
        jobs.append((name, props, apply, "revert of fix commit " + commit))
    for name, props, apply, note in jobs:
        if want and not any(w in name for w in want):
            continue
        t0 = time.time()
        r = run_one(name, props, apply)
        r["note"] = note
        r["seconds"] = round(time.time() - t0)
        results.append(r)
        print(json.dumps(r), flush=True)
    path = os.path.join(ROOT, "mutants", "results.json")
    prev = {}
    if os.path.exists(path):
        prev = {r["name"]: r for r in json.load(open(path))}
    for r in results:
        prev[r["name"]] = r
    current = set(n for n, *_ in M) | set(n for n, *_ in REVERTS)
    prev = {k: v for k, v in prev.items() if k in current}
    allr = sorted(prev.values(), key=lambda r: r["name"])
    json.dump(allr, open(path, "w"), indent=1)
    with open(os.path.join(ROOT, "mutants", "README.md"), "w") as f:
        f.write("# Sensitivity sweep (tools/mutants.py)\n\nEach row is a breaking change applied to a scratch copy of the repository; 'pinned' / 'upstream' say whether the repository's own tests (glow suite; `-tags test ./server`) still pass with it; the last column is the quick-tier verdict (VERIF_SEED=1) of each targeted check. Rows named equivalent-* change no reachable behaviour and are expected to be MISSED.\n\n| change | what it does | pinned suite | upstream server tests | checks |\n|---|---|---|---|---|\n")
        for r in allr:
            if "checks" not in r:
                f.write("| %s | %s | - | - | %s |\n" % (r["name"], r.get("note", ""), r["status"]))
                continue
            f.write("| %s | %s | %s | %s | %s |\n" % (r["name"], r.get("note", ""), "pass" if r["pinned_suite_passes"] else "FAIL", "pass" if r["upstream_server_tests_pass"] else "FAIL", ", ".join("%s: %s" % kv for kv in sorted(r["checks"].items()))))


if __name__ == "__main__":
    main()
