#!/bin/bash
# usage: tools/coverall.sh [quick|thorough] [seed]
# Development aid: runs every check with statement coverage of the three repository packages
# and prints the functions of server/, client/ and glow/ that are not fully covered by the
# union of all checks (evidence and replays are not touched).
tier="${1:-quick}"; seed="${2:-1}"
export GOFLAGS=-mod=mod GOPROXY=off GOSUMDB=off GOTOOLCHAIN=local
keep=$(mktemp -d /dev/shm/coverall-XXXX)
cd /verif
for p in $(python3 -c "import json;print(' '.join(c['property_id'] for c in json.load(open('MANIFEST.json'))['checks']))"); do
  VERIF_COVER_ALL=github.com/glowlabs-org/gca-backend/... VERIF_COVER_KEEP=$keep VERIF_NOEVIDENCE=1 VERIF_SEED=$seed ./check $p --tier $tier 2>&1 | tail -1
done
python3 - $keep <<'PY'
import sys, glob
blocks = {}
for f in glob.glob(sys.argv[1] + "/*.out"):
    for line in open(f):
        if line.startswith("mode:"): continue
        loc, stmts, cnt = line.rsplit(" ", 2)
        k = (loc, int(stmts)); blocks[k] = max(blocks.get(k, 0), int(cnt))
with open(sys.argv[1] + "/all.out", "w") as o:
    o.write("mode: set\n")
    for (loc, stmts), cnt in sorted(blocks.items()):
        o.write("%s %d %d\n" % (loc, stmts, 1 if cnt else 0))
PY
( cd harness && go tool cover -func=$keep/all.out | grep -v verif_on.go > $keep/func.txt; tail -1 $keep/func.txt; grep -v "100.0%" $keep/func.txt | sort -k3 -n | head -150 )
echo "profile: $keep/all.out (remove the directory when done)"
