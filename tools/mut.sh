#!/bin/bash
# usage: tools/mut.sh <patch-file | revert:<commit>> <property> [tier]
# Applies a mutation to /repo's working tree, runs the property's check, and
# restores the tree. Prints CAUGHT / MISSED / INCONCLUSIVE.
set -u
what="$1"; prop="$2"; tier="${3:-quick}"
cd /verif
if ! git -C /repo diff --quiet; then echo "refusing: /repo working tree is dirty"; exit 3; fi
if [[ "$what" == revert:* ]]; then
  c="${what#revert:}"
  git -C /repo show "$c" --format= -- . | git -C /repo apply -R || { echo "cannot revert $c"; exit 3; }
else
  git -C /repo apply "$(realpath "$what")" || { echo "cannot apply $what"; exit 3; }
fi
trap 'git -C /repo checkout -- . ; git -C /repo clean -fdq -- server client glow' EXIT
( cd /repo && GOFLAGS=-mod=mod GOPROXY=off go build ./... ) || { echo "MUTANT DOES NOT BUILD: $what"; exit 3; }
out=$(VERIF_NOEVIDENCE=1 ./check "$prop" --tier "$tier" 2>&1); rc=$?
echo "$out" | grep -E "VIOLATION|INCONCLUSIVE|HELD|KNOWN" | head -5
case $rc in
 1) echo "CAUGHT $what by $prop ($tier)";;
 0) echo "MISSED $what by $prop ($tier)";;
 *) echo "INCONCLUSIVE $what by $prop ($tier) rc=$rc"; echo "$out" | tail -20;;
esac
exit 0
