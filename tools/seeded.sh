#!/bin/bash
# usage: tools/seeded.sh <out-dir> <seed-id> <prop> [more props...]
# Confirms a seeded change written by a sub-agent in a scratch worktree (applies, builds,
# existing tests pass, demo fails with it and passes without it), runs the given checks
# against it, and stores it under /verif/seeded/<seed-id>/.
set -u
out="$1"; sid="$2"; shift 2; props="$@"
export GOFLAGS=-mod=mod GOPROXY=off GOSUMDB=off GOTOOLCHAIN=local
scratch=$(mktemp -d /dev/shm/seed-XXXX); repo=$scratch/repo
git -C /repo worktree add -q --detach $repo HEAD || exit 3
trap 'git -C /repo worktree remove --force $repo; rm -rf $scratch' EXIT
demo=$(ls $out/*_test.go | head -1); pkg=$(grep -m1 '^package ' $demo | awk '{print $2}'); pkg=${pkg%_test}
res() { echo "$1" | tee -a $scratch/log; }
( cd $repo && git apply $out/patch.diff ) || { res "PATCH DOES NOT APPLY"; exit 3; }
( cd $repo && go build ./... && go build -tags test ./... ) || { res "DOES NOT BUILD"; exit 3; }
( cd $repo && (go test -vet=off -count=1 ./glow >/dev/null 2>&1 || go test -vet=off -count=1 ./glow >/dev/null 2>&1) ) && pinned=pass || pinned=FAIL
( cd $repo && go test -tags test -count=1 ./server >/dev/null 2>&1 ) && upstream=pass || upstream=FAIL
cp $demo $repo/$pkg/zz_seeded_demo_test.go
name=$(grep -o 'func Test[A-Za-z0-9_]*' $demo | sed 's/func //' | paste -sd'|')
( cd $repo && go test -tags test -count=1 -run "^($name)\$" ./$pkg >$scratch/with.txt 2>&1 ) && with=pass || with=FAIL
( cd $repo && git apply -R $out/patch.diff )
( cd $repo && go test -tags test -count=1 -run "^($name)\$" ./$pkg >$scratch/without.txt 2>&1 ) && without=pass || without=FAIL
( cd $repo && git apply $out/patch.diff; rm -f $pkg/zz_seeded_demo_test.go )
res "pinned=$pinned upstream_server=$upstream demo_with_change=$with demo_without_change=$without"
verdicts=""
for p in $props; do
  VERIF_REPO=$repo VERIF_NOEVIDENCE=1 /verif/check $p --tier quick >$scratch/$p.txt 2>&1; rc=$?
  v=$([ $rc -eq 1 ] && echo CAUGHT || ([ $rc -eq 0 ] && echo MISSED || echo INCONCLUSIVE))
  res "$p: $v  $(grep -m1 -E "^\s+\S+_test.go:[0-9]+: (\[rapid\] failed[^:]*: )?C[0-9]+" $scratch/$p.txt | cut -c1-300)"
  verdicts="$verdicts\"$p\": \"$v\", "
done
mkdir -p /verif/seeded/$sid
cp $out/patch.diff /verif/seeded/$sid/patch.diff; cp $demo /verif/seeded/$sid/; [ -f $out/notes.md ] && cp $out/notes.md /verif/seeded/$sid/notes.md
cat > /verif/seeded/$sid/meta.json <<EOM
{
 "id": "$sid",
 "breaks_property": "$(echo $props | awk '{print $1}')",
 "author": "independent sub-agent (saw only the property text and a scratch worktree)",
 "confirmed": {"pinned_suite_with_change": "$pinned", "upstream_server_tests_with_change": "$upstream", "demo_with_change": "$with", "demo_without_change": "$without"},
 "what_i_ran": "tools/seeded.sh: scratch worktree of /repo HEAD; git apply patch.diff; go build ./... (both tag sets); go test ./glow; go test -tags test ./server; demo test with and without the change; ./check <prop> --tier quick with VERIF_REPO pointing at the patched scratch copy",
 "quick_tier_verdicts": {${verdicts%, }},
 "needs_to_manifest": "see notes.md"
}
EOM
cat $scratch/log
