#!/usr/bin/env python3
"""Regenerates MANIFEST.json from checks_table.py (claimed checks) and
properties.jsonl (everything else goes under not_applicable with a reason)."""
import json, os, subprocess
ROOT = os.path.dirname(os.path.abspath(__file__))
import sys
sys.path.insert(0, ROOT)
from checks_table import PROPS, META

props = [json.loads(l) for l in open(os.path.join(ROOT, "properties.jsonl"))]
hook_commits = subprocess.run(["git", "-C", "/repo", "log", "--format=%H %s"], stdout=subprocess.PIPE, text=True).stdout.splitlines()
hook_commits = [l.split()[0] for l in hook_commits if "verif hooks" in l]
checks, na = [], []
for p in props:
    pid = p["id"]
    if pid in PROPS:
        c = PROPS[pid]
        m = META[pid]
        checks.append({
            "property_id": pid,
            "quick_cmd": "./check %s --tier quick" % pid,
            "thorough_cmd": "./check %s --tier thorough" % pid,
            "evidence_file": "/verif/evidence/%s.json" % pid,
            "replay_cmd_template": "./check %s --replay {path}" % pid,
            "engine": "rapid-harness",
            "level_claimed": {"category": c["level"], "text": m["text"], "design_ref": m.get("design_ref", "DESIGN.md section 4, " + pid)},
            "level_note": m["note"],
            "technique": m["technique"],
        })
    else:
        na.append({"property_id": pid, "reason": META.get(pid, {}).get("na_reason", "check not built yet in this session; no claim is made")})
man = {
    "version": 1,
    "setup_cmd": "./check --setup",
    "hooks": {
        "guard": "verif",
        "enable": "go test -tags 'test verif' (harness module /verif/harness with replace => /repo)",
        "baseline_off_cmd": "cd /repo && GOFLAGS=-mod=mod go test -json -vet=off -count=1 -timeout 25m ./...",
        "source_commits": hook_commits,
        "add_only": True,
    },
    "engines": [{
        "name": "rapid-harness", "path": "/verif/harness",
        "serves_properties": sorted(PROPS.keys()),
        "kind_free_text": "Go module with pgregory.net/rapid v1.3.0 property tests (stateful and plain), reference models/encoders in harness/ref, fixtures in harness/world; driver ./check shards by process and merges evidence",
    }],
    "checks": checks,
    "not_applicable": na,
    "notes": "All checks rebuild the harness against /repo's working tree (go test -c with replace => /repo). VERIF_SEED selects the rapid seeds; exit 2 means inconclusive (never a violation).",
}
json.dump(man, open(os.path.join(ROOT, "MANIFEST.json"), "w"), indent=1)
print("claimed:", [c["property_id"] for c in checks], "not_applicable:", [n["property_id"] for n in na])
