"""Per-property job table used by ./check (and to generate MANIFEST.json).

Each job is one test binary invocation pattern:
  run      regexp for -test.run
  checks   rapid cases per shard, per tier
  shards   processes per tier (each with its own rapid seed)
  race     build with the race detector
  tags     build tags (default 'test verif')
  pkg      harness package (default ./props)
"""

PROPS = {
    "C18": {
        "level": "exploration",
        "jobs": [
            {"run": "^TestC18", "checks": {"quick": 6000, "thorough": 120000}, "shards": {"quick": 1, "thorough": 16}},
        ],
        "assumptions": [
            "time.Now() is monotone within the process; equal timestamps are treated as unordered",
        ],
    },
}

# Texts for MANIFEST.json.
META = {
    "C18": {
        "technique": "stateful property-based testing (rapid state machine) against a reference model",
        "text": "Generated Printf/ExpireLogs/Dump histories over a grid of configurations are executed on glow.EventLogger and on an independently written model; contents, timestamps count, byte bound, eviction order and dump order are compared after every step, and any panic is a failure. Exploration: no claim beyond the histories generated.",
        "note": "Trusts rapid's generators/shrinker and the reference model in harness/props/c18_test.go; timestamps come from the real clock and ties are treated as unordered.",
    },
}
