"""Per-property job table used by ./check (and to generate MANIFEST.json).

Each job is one test binary invocation pattern:
  run      regexp for -test.run
  checks   rapid cases per shard, per tier
  shards   processes per tier (each with its own rapid seed)
  race     build with the race detector
  tags     build tags (default 'test verif')
  pkg      harness package (default ./props)
"""

PROPS = {
    "C01": {
        "level": "exploration",
        "jobs": [
            {"run": "^TestC01", "checks": {"quick": 60, "thorough": 700}, "shards": {"quick": 2, "thorough": 16}},
        ],
        "assumptions": [
            "datagrams are delivered one at a time through the real UDP socket on loopback; completion is observed through the verif-tagged handled counter",
            "the reference verifier is libsecp256k1 via go-ethereum called on Keccak-256 of independently built signing bytes (cross-checked against a math/big verifier in C15)",
        ],
    },
    "C02": {
        "level": "exploration",
        "jobs": [
            {"run": "^TestC02Exhaustive", "rapid": False, "checks": {"quick": 0, "thorough": 0}, "shards": {"quick": 1, "thorough": 1}},
            {"run": "^TestC02(RandomHistories|OrderIndependence)", "checks": {"quick": 60, "thorough": 800}, "shards": {"quick": 2, "thorough": 16}},
        ],
        "assumptions": [
            "capacity <= floor((2^64-1)/135), beyond which capacity*135 does not fit 64 bits (DESIGN.md section 6)",
            "two reports are 'distinct' when their 80 bytes differ (a second valid signature over the same content is a distinct report)",
        ],
    },
    "C19": {
        "level": "exploration",
        "jobs": [
            {"run": "^TestC19", "checks": {"quick": 150, "thorough": 1500}, "shards": {"quick": 1, "thorough": 16}},
        ],
        "assumptions": [
            "time.Since readings are monotonic; scheduling delays only widen the [before,after] intervals, which can silence the oracle but never raise an alarm",
        ],
    },
    "C20": {
        "level": "exploration",
        "jobs": [
            {"run": "^TestC20Prod", "pkg": "./prod", "tags": "verif", "stage": 0,
             "checks": {"quick": 20000, "thorough": 2000000}, "shards": {"quick": 1, "thorough": 1}},
            {"run": "^TestC20(Conversions|WindowSafety)", "stage": 1, "rapid": False,
             "checks": {"quick": 0, "thorough": 0}, "shards": {"quick": 1, "thorough": 1}},
            {"run": "^TestC20AcceptanceNoWrap", "stage": 1,
             "checks": {"quick": 4000, "thorough": 20000}, "shards": {"quick": 1, "thorough": 16}},
        ],
        "assumptions": [
            "the production rotation period is read from the production build of /repo (tags: verif only) and handed to the main-build job",
            "the rotation trigger and acceptance half-width are measured on the test build; the code that implements them is not build-tagged",
        ],
    },
    "C18": {
        "level": "exploration",
        "jobs": [
            {"run": "^TestC18", "checks": {"quick": 6000, "thorough": 120000}, "shards": {"quick": 1, "thorough": 16}},
        ],
        "assumptions": [
            "time.Now() is monotone within the process; equal timestamps are treated as unordered",
        ],
    },
}

# Texts for MANIFEST.json.
META = {
    "C01": {
        "technique": "property-based testing of generated datagrams against a reference acceptance predicate and reference server model",
        "text": "Generated worlds and datagram sequences (random bytes, boundary reports, mutations, re-signings under every other key) are delivered through the real UDP socket at generated clock values; after every datagram the complete server state and the persisted report log are compared with a reference model that only changes for reports satisfying the stated predicate; the public surface is compared at the end of each case. Exploration only.",
        "note": "Trusts the reference model (harness/ref/model.go), the reference signature verifier and the verif-tagged snapshot accessor (itself cross-checked against the HTTP/TCP surface and the data files).",
    },
    "C02": {
        "technique": "exhaustive enumeration of short report sequences plus stateful and metamorphic property-based testing against the set-valued outcome function",
        "text": "All 1555 sequences up to length 4 over a 6-letter alphabet are executed on fresh slots; random long histories with replays, second signatures and boundary powers are executed on several devices and slots; the same multiset is delivered in two orders to two fresh servers. The oracle is the property's function of the set of distinct valid reports, checked after every step, plus full-state model comparison for non-interference.",
        "note": "Exhaustive only for the stated alphabet and length; everything else is sampled. Capacity domain bounded as documented.",
    },
    "C19": {
        "technique": "property-based testing over generated concurrent arrival schedules, oracle by interval arithmetic on per-call timestamps",
        "text": "Generated (limit, window, goroutines, pattern, pace) schedules are executed with real goroutines against glow.RateLimiter; each call's monotonic [before,after] interval is recorded and a violation is reported only when it is certain for every placement of the true instants inside the intervals (over-admission within one window, or rejection with fewer than limit possible admissions in the preceding window). Exploration only.",
        "note": "Trusts Go's monotonic clock. Under load the oracle gets weaker (wider intervals), never wrong. The judge itself has a self-check with synthetic logs.",
    },
    "C20": {
        "technique": "exhaustive boundary enumeration plus property-based testing against an int64 reference, in both the production and the test build",
        "text": "Conversions are checked at every 5-minute boundary up to the 32-bit no-overflow bound (exhaustive, both builds) and at random times; production genesis and clock are checked in a build without the test tag; acceptance at uint32-extreme (now, slot) pairs is compared with the int64 predicate on a live server; the rotation trigger and acceptance half-width are measured on the live server and combined with the production rotation period in T+P+1+W<4032.",
        "note": "The window-safety inequality uses the measured trigger and half-width of the test build (same source lines in both builds) and the production period constant; clock values above the uint32 range are out of scope.",
    },
    "C18": {
        "technique": "stateful property-based testing (rapid state machine) against a reference model",
        "text": "Generated Printf/ExpireLogs/Dump histories over a grid of configurations are executed on glow.EventLogger and on an independently written model; contents, timestamps count, byte bound, eviction order and dump order are compared after every step, and any panic is a failure. Exploration: no claim beyond the histories generated.",
        "note": "Trusts rapid's generators/shrinker and the reference model in harness/props/c18_test.go; timestamps come from the real clock and ties are treated as unordered.",
    },
}
