"""Per-property job table used by ./check (and to generate MANIFEST.json).

Each job is one test binary invocation pattern:
  run      regexp for -test.run
  checks   rapid cases per shard, per tier
  shards   processes per tier (each with its own rapid seed)
  race     build with the race detector
  tags     build tags (default 'test verif')
  pkg      harness package (default ./props)
"""

_HIST_ASSUME = [
    "one server per process (the settable clock is a process global); the rotation and impact loops are stepped through verif-tagged gates, so the harness owns their schedule",
    "the rotation trigger is observed, not predicted: the model rotates as often as the window moved and requires each move to be a valid rotation (C20 measures the trigger)",
    "live impact rates are random in the test build; they are observed and only their conservation through rotation is checked",
]

PROPS = {
    "C05": {
        "level": "fault_enumeration",
        "jobs": [
            {"run": "^TestC05CrashImages", "checks": {"quick": 12, "thorough": 250}, "shards": {"quick": 2, "thorough": 14}, "shrink_s": 45},
            {"run": "^TestC05EmptyFileImages", "rapid": False, "checks": {"quick": 0, "thorough": 0}, "shards": {"quick": 1, "thorough": 1}},
            {"run": "^TestC05(Sigkill|Child)", "checks": {"quick": 60, "thorough": 400}, "shards": {"quick": 1, "thorough": 4}, "shrink_s": 45},
            {"run": "^TestC05(SyscallCrash|Child)", "checks": {"quick": 3, "thorough": 30}, "shards": {"quick": 1, "thorough": 8}, "shrink_s": 45},
        ],
        "assumptions": [
            "process-crash model: completed system calls survive (no power-loss reordering), as the property says",
            "the server flushes nothing at shutdown, so a copy of the data directory taken at a crash point is what a crash at that instant leaves behind",
            "crash points are the verif points placed before and after every write of the persistence code; states a single write(2) could expose partially are out of the model",
            "images are started with the clock at the window start (no catch-up rotation mixed into the comparison)",
        ],
    },
    "C14": {
        "level": "exploration",
        "jobs": [
            {"run": "^TestC14GapMatrix", "checks": {"quick": 6, "thorough": 60}, "shards": {"quick": 2, "thorough": 12}},
            {"run": "^TestC14ConcurrentWriters", "checks": {"quick": 10, "thorough": 150}, "shards": {"quick": 1, "thorough": 4}},
            {"run": "^TestC14RateLimit", "checks": {"quick": 30, "thorough": 400}, "shards": {"quick": 1, "thorough": 4}},
            {"run": "^TestC14LongHistory", "checks": {"quick": 4, "thorough": 40}, "shards": {"quick": 3, "thorough": 8}, "shrink_s": 30},
        ],
        "assumptions": [
            "record alignment is asserted only where the harness owns the schedule (burst injected in a gap, complete before the next file is read); under true concurrency only prefix + dependency closure over complete records",
            "an archive request on an unregistered server fails (no gcaPubKey.dat yet); a failed request is not an archive",
            "the rate-limit oracle only reports certain violations (interval arithmetic on request timestamps)",
        ],
    },
    "C13": {
        "level": "exploration",
        "jobs": [
            {"run": "^TestC13Interleavings", "rapid": False, "checks": {"quick": 0, "thorough": 0}, "shards": {"quick": 1, "thorough": 1}},
            {"run": "^TestC13Workloads", "race": True, "checks": {"quick": 25, "thorough": 300}, "shards": {"quick": 2, "thorough": 12}, "shrink_s": 30},
            {"run": "^TestC13RotationVsReaders", "race": True, "checks": {"quick": 5, "thorough": 60}, "shards": {"quick": 1, "thorough": 3}, "shrink_s": 30},
            {"run": "^TestC13RotationAtomicity", "checks": {"quick": 60, "thorough": 1500}, "shards": {"quick": 1, "thorough": 4}, "shrink_s": 30},
            {"run": "^TestC13Interleavings", "race": True, "rapid": False, "checks": {"quick": 0, "thorough": 0}, "shards": {"quick": 0, "thorough": 1},
             "cover_pkg": "github.com/glowlabs-org/gca-backend/server", "cover_tiers": ["thorough"]},
        ],
        "assumptions": [
            "interleavings are explored at the verif yield points placed between critical sections; finer interleavings inside a critical section are left to the race detector on the randomised workloads",
            "the serial reference runs use byte-identical copies of the same data directory; impact rates (random in the test build) and signatures over them are excluded from the comparison",
            "workload outcomes are order-independent by construction, so scheduling cannot raise an alarm",
        ],
    },
    "C12": {
        "level": "exploration",
        "jobs": [
            {"fuzz": "FuzzDatagram", "pkg": "./fuzz", "fuzztime": {"quick": 0, "thorough": 60}},
            {"fuzz": "FuzzHTTP", "pkg": "./fuzz", "fuzztime": {"quick": 0, "thorough": 60}},
            {"run": "^TestC12Inputs", "checks": {"quick": 4, "thorough": 120}, "shards": {"quick": 3, "thorough": 16}, "shrink_s": 45,
             "cover_pkg": "github.com/glowlabs-org/gca-backend/server", "cover_tiers": ["thorough"]},
            {"run": "^TestC12CatchUpTraffic", "checks": {"quick": 150, "thorough": 3000}, "shards": {"quick": 1, "thorough": 4}},
            {"run": "^TestC12Shutdown", "checks": {"quick": 4, "thorough": 30}, "shards": {"quick": 2, "thorough": 8}, "shrink_s": 45},
        ],
        "assumptions": [
            "handler panics are observed through a verif-tagged wrapper around the HTTP mux that records and re-raises them; goroutine panics through deferred witnesses at the goroutine entry points",
            "shutdown bound: 2 x serverShutdownTime of this build (10 s)",
            "a connection reset caused by unread extra request bytes is TCP behaviour, not judged",
        ],
    },
    "C08": {
        "level": "exploration",
        "jobs": [
            {"run": "^TestC08", "checks": {"quick": 14, "thorough": 150}, "shards": {"quick": 4, "thorough": 16}, "steps": 25, "shrink_s": 45},
        ],
        "assumptions": [
            "readings whose scaled value fits 32 signed bits (the property's domain; the other class is KF-C09-1)",
            "loss, duplication and reordering are decided per datagram by the harness, which holds every emitted datagram; sync failures are injected by a TCP relay with one configured server",
            "device capacity is large (2^40), so the capacity rule does not interfere with recovery",
        ],
    },
    "C10": {
        "level": "exploration",
        "jobs": [
            {"fuzz": "FuzzSyncReply", "pkg": "./fuzz", "fuzztime": {"quick": 0, "thorough": 60}},
            {"run": "^TestC10", "checks": {"quick": 40, "thorough": 400}, "shards": {"quick": 2, "thorough": 16}, "shrink_s": 45},
        ],
        "assumptions": [
            "authorized servers and migration orders are installed through verif-tagged accessors (no peer forwarding); their signatures are genuine GCA signatures",
            "the freshness oracle is tolerance-aware: a reply must be accepted if it is within 24 h - 5 s and rejected beyond 24 h + 5 s",
            "locations are at most 255 bytes on the sync wire",
        ],
    },
    "C17": {
        "level": "exploration",
        "jobs": [
            {"run": "^TestC17ServerList", "checks": {"quick": 150, "thorough": 3000}, "shards": {"quick": 1, "thorough": 8}},
            {"run": "^TestC17ClientAdoption", "checks": {"quick": 8, "thorough": 120}, "shards": {"quick": 4, "thorough": 16}, "steps": 14, "shrink_s": 45},
        ],
        "assumptions": [
            "migration orders carry at least one new server (DESIGN.md section 6)",
            "replacing an already banned entry by another GCA-signed banned entry is not flagged on the client",
        ],
    },
    "C11": {
        "level": "exploration",
        "jobs": [
            {"run": "^TestC11Rounds", "checks": {"quick": 12, "thorough": 200}, "shards": {"quick": 4, "thorough": 16}, "steps": 14, "shrink_s": 45,
             "cover_pkg": "github.com/glowlabs-org/gca-backend/client", "cover_tiers": ["thorough"]},
            {"run": "^TestC11ResyncAfterFailure", "checks": {"quick": 8, "thorough": 60}, "shards": {"quick": 2, "thorough": 8}, "shrink_s": 45},
            {"run": "^TestC11StalledServer", "checks": {"quick": 3, "thorough": 30}, "shards": {"quick": 2, "thorough": 4}, "shrink_s": 45},
            {"run": "^TestC11OverlappingRounds", "checks": {"quick": 15, "thorough": 150}, "shards": {"quick": 2, "thorough": 8}, "shrink_s": 45},
            {"run": "^TestC11OverlappingRounds", "race": True, "checks": {"quick": 0, "thorough": 60}, "shards": {"quick": 0, "thorough": 4}, "shrink_s": 45},
        ],
        "assumptions": [
            "a reporting tick or sync round that does not complete within 10 s (it takes about 60 ms) is reported as a wedged client",
            "whether a reply is acceptable is decided by the reference rule ref.AcceptSyncReply, not by the generator's intent",
            "ban monotonicity is asserted under an unchanged GCA (a valid migration replaces the list by design, C17)",
            "with every configured server banned no report is expected (reporting to a banned server would itself violate the property)",
            "a server that announces its own ban in an accepted reply stays the selected one until the client's next round (the code does not re-select at once; the property speaks of selecting): ticks in between are granted and must complete, but whether they emit is not judged",
        ],
    },
    "C09": {
        "level": "exploration",
        "jobs": [
            {"run": "^TestC09HistoryStore", "checks": {"quick": 2500, "thorough": 6000}, "shards": {"quick": 1, "thorough": 12}},
            {"run": "^TestC09(Wire|KnownFinding)", "checks": {"quick": 35, "thorough": 300}, "shards": {"quick": 4, "thorough": 16}},
        ],
        "assumptions": [
            "timeslots handed to the history store are at most 14316557, the largest value UnixToTimeslot can return",
            "scaled readings stay within 32 signed bits except in a small class that exercises known finding KF-C09-1 (counted as excluded_known / known_findings_hit)",
            "datagrams with power 0 or 1 are outside the property (the server does not act on them)",
        ],
    },
    "C15": {
        "level": "exploration",
        "jobs": [
            {"fuzz": "FuzzStreamDecoder", "pkg": "./fuzz", "fuzztime": {"quick": 0, "thorough": 45}},
            {"fuzz": "FuzzServerMap", "pkg": "./fuzz", "fuzztime": {"quick": 0, "thorough": 30}},
            {"run": "^TestC15Codecs", "checks": {"quick": 12000, "thorough": 150000}, "shards": {"quick": 1, "thorough": 8}},
            {"run": "^TestC15Crypto", "checks": {"quick": 4000, "thorough": 40000}, "shards": {"quick": 1, "thorough": 8}},
            {"run": "^TestC15JSONEndToEnd", "checks": {"quick": 1500, "thorough": 20000}, "shards": {"quick": 1, "thorough": 1}},
            {"run": "^TestC15RegistrationFile", "checks": {"quick": 300, "thorough": 6000}, "shards": {"quick": 1, "thorough": 4}},
        ],
        "assumptions": [
            "authorized-server locations are at most 255 bytes on the wire (one length byte) and at most 65535 bytes in the client map",
            "floats are NaN-free as the property says; finite for the JSON endpoint",
        ],
    },
    "C16": {
        "level": "exploration",
        "jobs": [
            {"fuzz": "FuzzEnergyFile", "pkg": "./fuzz", "fuzztime": {"quick": 0, "thorough": 60}},
            {"run": "^TestC16EnergyFile", "checks": {"quick": 8000, "thorough": 80000}, "shards": {"quick": 1, "thorough": 12}},
            {"run": "^TestC16Wire", "checks": {"quick": 400, "thorough": 4000}, "shards": {"quick": 1, "thorough": 4}},
        ],
        "assumptions": [
            "float to uint64 conversion of negative values is platform defined in Go; the two's complement rule is checked on this platform (amd64)",
            "what counts as an unparseable reading is Go's float literal grammar (strconv.ParseFloat); timestamps beyond genesis+2^32-1 s are outside the value oracle",
            "a row with extra columns is not well-formed: nothing is required of it, but a record taken from it must follow the same rules",
        ],
    },
    "C04": {
        "level": "exploration",
        "jobs": [
            {"run": "^TestC04", "checks": {"quick": 30, "thorough": 500}, "shards": {"quick": 2, "thorough": 16}, "shrink_s": 60},
        ],
        "assumptions": _HIST_ASSUME + ["the clock is parked at the window start while an instance shuts down, so that shutdown itself never rotates the window"],
    },
    "C06": {
        "level": "exploration",
        "jobs": [
            {"run": "^TestC06", "checks": {"quick": 50, "thorough": 800}, "shards": {"quick": 2, "thorough": 16}, "shrink_s": 60},
        ],
        "assumptions": _HIST_ASSUME + ["first authorizations of distinct ids carry distinct keys; key reuse is generated only inside conflicts (DESIGN.md section 6)",
                                       "an authorization is 'identical' when its 148 bytes are identical"],
    },
    "C07": {
        "level": "exploration",
        "jobs": [
            {"run": "^TestC07", "checks": {"quick": 60, "thorough": 600}, "shards": {"quick": 2, "thorough": 10}, "shrink_s": 60},
            {"run": "^TestC07", "race": True, "checks": {"quick": 0, "thorough": 250}, "shards": {"quick": 0, "thorough": 6}, "shrink_s": 60},
        ],
        "assumptions": _HIST_ASSUME + ["concurrent batches are judged by a schedule-independent oracle (exactly one success; authority only for the winner)"],
    },
    "C03": {
        "level": "exploration",
        "jobs": [
            {"run": "^TestC03", "checks": {"quick": 25, "thorough": 400}, "shards": {"quick": 2, "thorough": 16}, "shrink_s": 60},
        ],
        "assumptions": _HIST_ASSUME,
    },
    "C01": {
        "level": "exploration",
        "jobs": [
            {"run": "^TestC01", "checks": {"quick": 60, "thorough": 700}, "shards": {"quick": 2, "thorough": 16}},
        ],
        "assumptions": [
            "datagrams are delivered one at a time through the real UDP socket on loopback; completion is observed through the verif-tagged handled counter",
            "the reference verifier is libsecp256k1 via go-ethereum called on Keccak-256 of independently built signing bytes (cross-checked against a math/big verifier in C15)",
        ],
    },
    "C02": {
        "level": "exploration",
        "jobs": [
            {"run": "^TestC02Exhaustive", "rapid": False, "checks": {"quick": 0, "thorough": 0}, "shards": {"quick": 1, "thorough": 1}},
            {"run": "^TestC02(RandomHistories|OrderIndependence)", "checks": {"quick": 60, "thorough": 800}, "shards": {"quick": 2, "thorough": 16}},
        ],
        "assumptions": [
            "capacity <= floor((2^64-1)/135), beyond which capacity*135 does not fit 64 bits (DESIGN.md section 6)",
            "two reports are 'distinct' when their 80 bytes differ (a second valid signature over the same content is a distinct report)",
        ],
    },
    "C19": {
        "level": "exploration",
        "jobs": [
            {"run": "^TestC19", "checks": {"quick": 150, "thorough": 1500}, "shards": {"quick": 1, "thorough": 16}},
        ],
        "assumptions": [
            "time.Since readings are monotonic; scheduling delays only widen the [before,after] intervals, which can silence the oracle but never raise an alarm",
        ],
    },
    "C20": {
        "level": "exploration",
        "jobs": [
            {"run": "^TestC20Prod", "pkg": "./prod", "tags": "verif", "stage": 0, "env": {"TZ": "UTC"},
             "checks": {"quick": 20000, "thorough": 2000000}, "shards": {"quick": 1, "thorough": 1}},
            {"run": "^TestC20Prod(GenesisAndClock|Conversions)", "pkg": "./prod", "tags": "verif", "stage": 0, "env": {"TZ": "Asia/Tokyo"},
             "checks": {"quick": 5000, "thorough": 200000}, "shards": {"quick": 1, "thorough": 1}},
            {"run": "^TestC20Prod(GenesisAndClock|Conversions)", "pkg": "./prod", "tags": "verif", "stage": 0, "env": {"TZ": "America/New_York"},
             "checks": {"quick": 5000, "thorough": 200000}, "shards": {"quick": 1, "thorough": 1}},
            {"run": "^TestC20(Conversions|WindowSafety)", "stage": 1, "rapid": False,
             "checks": {"quick": 0, "thorough": 0}, "shards": {"quick": 1, "thorough": 1}},
            {"run": "^TestC20AcceptanceNoWrap", "stage": 1,
             "checks": {"quick": 4000, "thorough": 20000}, "shards": {"quick": 1, "thorough": 16}},
        ],
        "assumptions": [
            "the production rotation period is read from the production build of /repo (tags: verif only) and handed to the main-build job",
            "the rotation trigger and acceptance half-width are measured on the test build; the code that implements them is not build-tagged",
            "window offsets beyond 4294963008 are outside the check: their two-week window does not fit into 32-bit timeslots, so 'the mathematically correct answer' is not defined for them; if the server refuses to start from the constructed archive file the top-window half is skipped (labelled), never an alarm",
        ],
    },
    "C18": {
        "level": "exploration",
        "jobs": [
            {"run": "^TestC18", "checks": {"quick": 6000, "thorough": 120000}, "shards": {"quick": 1, "thorough": 16}},
        ],
        "assumptions": [
            "time.Now() is monotone within the process; equal timestamps are treated as unordered",
        ],
    },
}

# Texts for MANIFEST.json.
META = {
    "C05": {
        "technique": "fault enumeration driven by generated histories: a directory image at every persistence point of every operation, all empty-file states, and real SIGKILL of a child process at drawn journal positions; oracle = reference model before/after the operation in progress",
        "text": "Every instant at which the disk changes during a generated history (first start, registration, authorizations incl. conflicts, reports, rotations) yields a crash image that is started and compared with the model; all 63 combinations of present-but-empty files are started, registered and used; a child process is killed by strace fault injection at the entry of every write(2) on the data files of a generated plan; a child process executing a generated plan is SIGKILLed at a drawn journal line plus a few hundred microseconds and the recovered state must equal the model after the completed operations with the in-flight one applied or not. The enumeration is complete for the instrumented persistence points of the generated histories, not for all histories.",
        "note": "Enumerates crash points (verif points in the persistence code, and every write(2) on the data files via strace fault injection), samples histories. If strace/ptrace were unavailable the write-level part is skipped and says so in the evidence.",
    },
    "C14": {
        "technique": "schedule-owning injection of write bursts into every gap of the archive loop (complete gap x burst matrix on generated states), concurrent writers, and rate-limit schedules judged by interval arithmetic",
        "text": "For generated server states the archive is requested and a write burst (new device + first report, registration + first device, rotation, conflicting authorization, report burst) is executed from the verif point before each file is added; the zip is parsed by the harness and checked for record-aligned prefixes, dependency closure under the archived keys, absence of private key material and an exact server.pubkey. Archives taken under truly concurrent writers are checked without the alignment clause. Request bursts are judged against the configured limit with the C19 interval oracle. A further generated check (TestC14LongHistory) builds long histories - statistics and report files beyond one megabyte - and applies the same oracle to an archive taken while a burst lands in a drawn gap. Exploration only.",
        "note": "Whether a read(2) racing an O_APPEND write(2) can observe part of it is a kernel property and is not judged.",
    },
    "C13": {
        "technique": "schedule-owning interleaving injection at critical-section boundaries with a metamorphic serial-order oracle (complete point x interferer matrix), plus randomised order-independent workloads under the Go race detector against the reference model",
        "text": "For every yield point between critical sections and every interfering operation of the menu, the interferer is executed from inside the outer operation and the final state is compared with both serial orders run on identical copies of the data directory; panics, held mutexes and CheckInvariants are checked in every cell. Many-goroutine workloads with order-independent outcome run under -race with the background jobs free-running and are compared with the reference model. Exploration: absence of races or deadlocks on unexplored schedules is not claimed. A further generated check (TestC13RotationAtomicity) delivers a report from inside a rotation wherever the mutex is free there.",
        "note": "'Every control-flow path of every function that locks' is attacked dynamically (this check, plus the TryLock probes after every input in C12 and C11); paths not driven are not judged.",
    },
    "C12": {
        "technique": "property-based fuzzing of all three network surfaces with structured generators (datagram, TCP, HTTP method x route x query x body), fault injection for peers and connections, liveness probes after every input",
        "text": "Generated datagrams, sync requests and HTTP requests (incl. validly signed payloads at extreme field values) arrive at generated clock values from before the window to beyond two windows, with rotation steps in between, with authorized peers that are down; reports are also injected during the start-up catch-up loop through a verif point; shutdown is exercised with idle and half-sent connections and a stalled peer. No goroutine or handler may panic, every request must be answered, a probe must succeed and both mutexes must be free after every input, and Close() must return within the bound. Exploration only.",
        "note": "Production-only outbound calls (WattTime, NASA) are stubbed by the test build or fail fast offline; nothing is claimed about them.",
    },
    "C08": {
        "technique": "stateful property-based testing with generated fault sequences (per-datagram loss/duplication/reordering, per-attempt sync failures) between a real client and a real server",
        "text": "Generated histories of readings, ticks, relay decisions for every emitted datagram, failing and succeeding sync rounds, clock advances, a rotation and a server restart end with a fault-free round and delivery of everything held. The server must then hold the device's value for every slot still inside its window and acceptance range; all datagrams for a slot must be byte-identical; each delivery is additionally checked against the server model. Exploration only.",
        "note": "Eventual recovery is judged after an explicit fault-free round, as the property states; no timing assumption.",
    },
    "C10": {
        "technique": "property-based differential testing of the sync reply between the real server, the real client parser and a reference decoder/acceptance rule; mutation-based negative testing through a fake endpoint",
        "text": "Generated server states (edge slots, banned slots, 0-4 signed servers with 0..255-byte locations, migration orders) are queried by a real client with the same device key; its parse must equal the server snapshot and the reference decoder. Captured genuine replies are then mutated (bit flips per layout region - exhaustive for sampled replies in the thorough tier -, truncation, extension, bad framing, re-signing by other keys, timestamp shifts re-signed with the server key, replies for another device, replaced entry/migration signatures) and served by a fake endpoint; the client must reject exactly those the reference acceptance rule rejects, and a full round against a rejected reply must leave client state and files unchanged. Exploration only.",
        "note": "Trusts ref.AcceptSyncReply / ref.DecodeSyncReply (written from the property and the documented layout).",
    },
    "C17": {
        "technique": "stateful property-based testing against reference merge/adoption models on both the server and the client side",
        "text": "Server: generated POST /authorized-servers sequences (new, duplicates with changes, bans, un-ban attempts, forged and foreign signatures; peers down, the server itself, a second live server) are compared with a reference merge model through GET after every step; forwarding to a live peer is checked. Client: generated reply sequences (lists and migration orders, valid and forged in every position) with restarts are compared with a reference acceptance + adoption model in memory and on disk after every round. Exploration only.",
        "note": "Server-side persistence of the list is documented as not implemented and is outside the property.",
    },
    "C11": {
        "technique": "stateful property-based testing with fault injection: fake servers with real keys play drawn per-connection outcomes, including validly signed arbitrary replies",
        "text": "A real client with 1-5 configured servers (dead, banned, or fake servers owning key pairs) runs generated sync rounds, ticks with new readings and restarts. Outcomes per connection cover refusals, resets, short reads, every length class up to 65535 with a valid signature over arbitrary content, wrong signers, stale timestamps, foreign device keys, entries lacking the GCA signature, GCA-signed bans and un-ban attempts. Checked: no panic, mutex free after every round, next tick emits, no server dialled twice per round or while known banned, bans monotone in memory and on disk and across restart, and re-sync within four ticks after a failed round driven by the client's own loop. A further generated check overlaps two sync rounds (the second is started while the first is parked on a silent server, as the client's loop does after a failed round): a ban learnt by one round must bind the other. Exploration only.",
        "note": "'Every control-flow path of the locking code' is attacked dynamically only; paths not driven by the generated outcomes are not judged.",
    },
    "C09": {
        "technique": "stateful property-based testing: history store against a map model; energy-file edit histories with ticks and restarts against a reference of the tick rule, with a UDP sink as observer",
        "text": "The history store is driven through save/load/reopen sequences with boundary timeslots and values and compared with a map model and the documented file layout. At wire level the energy file evolves by generated edits (append, rewrite, duplicate with another value, reorder, malformed rows, removal) interleaved with granted reporting ticks and client restarts; the exact emissions of every tick are predicted and, over the whole history, all datagrams for a slot with a power the server acts on must be byte-identical and carry the first stored reading. Exploration only.",
        "note": "Known finding KF-C09-1 (32-bit history) is reproduced on every run by a dedicated input and matched by its specific signature; any other equivocation is a violation.",
    },
    "C15": {
        "technique": "property-based round-trip and differential testing of every codec against an independently written reference codec; bit-flip sensitivity under three verifiers",
        "text": "Generated values (boundary sets and random bits) for every persisted or transmitted structure are encoded by the repository and by the reference codec and compared byte for byte, decoded back, offered at wrong lengths, concatenated into streams and truncated; signing bytes must carry the ASCII name prefix and differ across values and types; signing must be deterministic and any single-bit change of message, signature or key must fail glow.Verify, libsecp256k1 on independent Keccak, and a math/big verifier; JSON transport is checked in memory and end to end through a live server and its data file; registered GCA keys from boundary sets (zero, white-space tails) must be in the key file byte for byte and survive a restart. Exploration only.",
        "note": "The reference codec (harness/ref/codec.go) was written from the README rules and struct layouts. Location lengths bounded by the formats' length fields.",
    },
    "C16": {
        "technique": "property-based testing with files constructed row by row from rows of known class, so the expected records are known by construction",
        "text": "Generated calibration settings and CSV contents (header variants, literal forms, +-24 boundaries, negative/huge/scientific readings, unparseable values, unusable timestamps, quoted fields, and malformed rows) are parsed by a real client instance; well-formed files must give exactly the expected (slot, value) list computed in float64 in the documented order; malformed files must not crash and may only yield records that stem from rows by the same rules; calibration must be read as written or refused; a wire sub-check compares emitted datagrams with the new rows. Exploration only.",
        "note": "Value oracle limited to finite readings whose scaled value fits 64 signed bits, as the property says.",
    },
    "C04": {
        "technique": "stateful property-based testing with a restart injected after every prefix, oracle = reference model equality after each restart",
        "text": "Generated histories of registrations, authorizations (incl. conflicts and bans), reports (incl. banned slots), rotations and clock jumps; in half of the cases the server is restarted after every single action, otherwise at drawn points, with clocks that need zero, one or several catch-up rotations and with double restarts. After each restart the start must succeed and the full state must equal the model; the public surface and the data files are cross-checked. Exploration only.",
        "note": "Authorized servers and migration orders are excluded as the property says. Live impact rates are not persisted by design and are excluded.",
    },
    "C06": {
        "technique": "stateful property-based testing of authorization sequences through the JSON endpoint against a reference model",
        "text": "Generated sequences of new, duplicate, conflicting (single-field, 1-ulp, sign-of-zero, key reuse), forged and foreign-signed authorizations and submissions for banned ids, interleaved with reports, rotations and restarts; the model of devices and bans, the key index of every device, all public views of banned ids, the server's own CheckInvariants and the authorization file are checked. Exploration only.",
        "note": "Latitude/longitude are any finite float64; capacity bounded as documented.",
    },
    "C07": {
        "technique": "stateful property-based testing with concurrent registration batches, schedule-independent oracle; thorough tier partly under the race detector",
        "text": "Generated histories start unregistered and mix registration attempts of every kind, concurrent batches of valid registrations for different candidates with simultaneous authority probes, restarts, and authority probes on the three GCA-gated endpoints signed by every key around. Exactly one registration may ever succeed and only the winner's signatures may be honoured. A second generated check registers arbitrary 32 bytes (random, repeated byte, genuine key with one bit flipped) as the GCA key and requires that an accepted registration stays the only one across restarts, whether or not the bytes are a usable public key. Exploration only.",
        "note": "The interleavings of a batch are whatever the Go scheduler produces; the oracle does not depend on who wins.",
    },
    "C03": {
        "technique": "stateful property-based testing (rapid state machine) against a reference model with remembered first responses",
        "text": "Generated histories (traffic, bans, clock advances, granted rotation/impact steps, restarts with catch-up, statistics queries with and without parameters) run against the real server; every rotation must archive exactly the model's values and the observed impact rates under a valid server signature over the reference layout; the first record served for an archived week is remembered and every later plain GET must be byte-identical; the statistics file must equal the concatenated reference serialisations. Exploration only.",
        "note": "Trusts the reference model and codec; impact rates are compared as observed values; device order inside a record is not prescribed by the property and is compared as a set at rotation time, then frozen by the first-response rule.",
    },
    "C01": {
        "technique": "property-based testing of generated datagrams against a reference acceptance predicate and reference server model",
        "text": "Generated worlds and datagram sequences (random bytes, boundary reports, mutations, re-signings under every other key) are delivered through the real UDP socket at generated clock values; after every datagram the complete server state and the persisted report log are compared with a reference model that only changes for reports satisfying the stated predicate; the public surface is compared at the end of each case. Exploration only.",
        "note": "Trusts the reference model (harness/ref/model.go), the reference signature verifier and the verif-tagged snapshot accessor (itself cross-checked against the HTTP/TCP surface and the data files).",
    },
    "C02": {
        "technique": "exhaustive enumeration of short report sequences plus stateful and metamorphic property-based testing against the set-valued outcome function",
        "text": "All 1555 sequences up to length 4 over a 6-letter alphabet are executed on fresh slots; random long histories with replays, second signatures and boundary powers are executed on several devices and slots; the same multiset is delivered in two orders to two fresh servers. The oracle is the property's function of the set of distinct valid reports, checked after every step, plus full-state model comparison for non-interference.",
        "note": "Exhaustive only for the stated alphabet and length; everything else is sampled. Capacity domain bounded as documented.",
    },
    "C19": {
        "technique": "property-based testing over generated concurrent arrival schedules, oracle by interval arithmetic on per-call timestamps",
        "text": "Generated (limit, window, goroutines, pattern, pace) schedules are executed with real goroutines against glow.RateLimiter; each call's monotonic [before,after] interval is recorded and a violation is reported only when it is certain for every placement of the true instants inside the intervals (over-admission within one window, or rejection with fewer than limit possible admissions in the preceding window). Exploration only.",
        "note": "Trusts Go's monotonic clock. Under load the oracle gets weaker (wider intervals), never wrong. The judge itself has a self-check with synthetic logs.",
    },
    "C20": {
        "technique": "exhaustive boundary enumeration plus property-based testing against an int64 reference, in both the production and the test build",
        "text": "Conversions are checked at every 5-minute boundary up to the 32-bit no-overflow bound (exhaustive, both builds) and at random times; production genesis and clock are checked in a build without the test tag, run under TZ=UTC, Asia/Tokyo and America/New_York (zone data embedded); acceptance at uint32-extreme (now, slot) pairs is compared with the int64 predicate on two live servers, one with the window at offset 0 and one with the last window that fits into 32 bits (offset 4294963008, restored from a constructed archive file); the rotation trigger and acceptance half-width are measured on the live server and combined with the production rotation period in T+P+1+W<4032.",
        "note": "The window-safety inequality uses the measured trigger and half-width of the test build (same source lines in both builds) and the production period constant; clock values above the uint32 range are out of scope.",
    },
    "C18": {
        "technique": "stateful property-based testing (rapid state machine) against a reference model",
        "text": "Generated Printf/ExpireLogs/Dump histories over a grid of configurations are executed on glow.EventLogger and on an independently written model; contents, timestamps count, byte bound, eviction order and dump order are compared after every step, and any panic is a failure. Exploration: no claim beyond the histories generated.",
        "note": "Trusts rapid's generators/shrinker and the reference model in harness/props/c18_test.go; timestamps come from the real clock and ties are treated as unordered.",
    },
}
