//go:build !test && verif

// Package prod is compiled WITHOUT the 'test' tag, i.e. against the
// production constants and the production clock of the repository.
package prod

import (
	"encoding/json"
	"fmt"
	"math"
	"os"
	"path/filepath"
	"testing"
	"time"
	_ "time/tzdata" // zone names resolve without a system tz database (the check runs the production build under several TZ values)

	"github.com/glowlabs-org/gca-backend/client"
	"github.com/glowlabs-org/gca-backend/glow"
	"github.com/glowlabs-org/gca-backend/server"
	"pgregory.net/rapid"

	"verif/harness/ev"
)

func TestMain(m *testing.M) {
	code := m.Run()
	ev.Flush()
	os.Exit(code)
}

const wantGenesis = int64(1700352000)

func refSlot(u, g int64) (int64, bool) {
	if u < g {
		return 0, false
	}
	return (u - g) / 300, true
}

func TestC20ProdGenesisAndClock(t *testing.T) {
	ev.Rule("C20(prod build): GenesisTime equals 1700352000 = 2023-11-19T00:00:00Z; CurrentTimeslot() is bracketed by the reference slot of two time.Now() readings; production constants are exported to the main-build job for the window-safety inequality")
	// The host's time zone must not matter: the driver runs this test under
	// TZ=UTC, a zone east and a zone west of it.
	_, zoneOffset := time.Now().Zone()
	ev.Label(fmt.Sprintf("c20:prod-zone-offset-%+dh", zoneOffset/3600))
	if tz := os.Getenv("TZ"); tz != "" && tz != "UTC" && zoneOffset == 0 {
		ev.Label("c20:prod-zone-not-applied")
	}
	if int64(glow.GenesisTime) != wantGenesis {
		t.Fatalf("C20: production GenesisTime = %d, want %d (host zone offset %d s)", int64(glow.GenesisTime), wantGenesis, zoneOffset)
	}
	if d := time.Date(2023, 11, 19, 0, 0, 0, 0, time.UTC).Unix(); d != int64(glow.GenesisTime) {
		t.Fatalf("C20: production GenesisTime %d is not 2023-11-19T00:00:00Z (%d)", int64(glow.GenesisTime), d)
	}
	n := 20000
	for i := 0; i < n; i++ {
		b := time.Now().Unix()
		got := glow.CurrentTimeslot()
		a := time.Now().Unix()
		lo, _ := refSlot(b, wantGenesis)
		hi, _ := refSlot(a, wantGenesis)
		if int64(got) < lo || int64(got) > hi {
			t.Fatalf("C20: CurrentTimeslot()=%d but the system clock gives [%d,%d]", got, lo, hi)
		}
	}
	ev.Eval(n)
	// The end of a 5-minute slot is where a rounding slip in the clock reading
	// shows (a value rounded to the nearest second moves into the next slot up
	// to 500 ms early). The thorough tier waits for the next slot boundary (at
	// most 300 s) and samples densely across it; the quick tier does so only if
	// the boundary is less than 12 s away.
	toBoundary := func() time.Duration {
		now := time.Now()
		sec := now.Unix() - wantGenesis
		next := time.Unix(wantGenesis+(sec/300+1)*300, 0)
		return next.Sub(now)
	}
	maxWait := 12 * time.Second
	if os.Getenv("VERIF_TIER") == "thorough" {
		maxWait = 301 * time.Second
	}
	if d := toBoundary(); d <= maxWait {
		if d > 1500*time.Millisecond {
			time.Sleep(d - 1500*time.Millisecond)
		}
		samples := 0
		last := 0
		for toBoundary() < 2*time.Second || samples == 0 {
			b := time.Now().Unix()
			got := glow.CurrentTimeslot()
			a := time.Now().Unix()
			lo, _ := refSlot(b, wantGenesis)
			hi, _ := refSlot(a, wantGenesis)
			if int64(got) < lo || int64(got) > hi {
				t.Fatalf("C20: CurrentTimeslot()=%d but the system clock gives slot [%d,%d] (sample taken %v before the slot boundary)", got, lo, hi, toBoundary())
			}
			samples++
			if hi > lo || (last != 0 && int(got) != last) {
				// crossed the boundary: continue for another 300 ms
				end := time.Now().Add(300 * time.Millisecond)
				for time.Now().Before(end) {
					b := time.Now().Unix()
					got := glow.CurrentTimeslot()
					a := time.Now().Unix()
					lo, _ := refSlot(b, wantGenesis)
					hi, _ := refSlot(a, wantGenesis)
					if int64(got) < lo || int64(got) > hi {
						t.Fatalf("C20: CurrentTimeslot()=%d right after a slot boundary, the system clock gives [%d,%d]", got, lo, hi)
					}
					samples++
				}
				break
			}
			last = int(got)
			if toBoundary() > 290*time.Second {
				break
			}
		}
		ev.Eval(samples)
		ev.NonTrivial("c20|prod|slot-boundary-sampled")
		ev.Label("c20:slot-boundary-sampled")
		ev.Set("c20_slot_boundary_samples", samples)
	} else {
		ev.Label("c20:slot-boundary-not-sampled-in-quick-tier")
	}
	ev.NonTrivial("c20|prod|genesis")
	ev.NonTrivial("c20|prod|clock-bracket")
	sc := server.VerifConsts()
	cc := client.VerifConsts()
	if sc.TestMode || cc.TestMode {
		t.Fatalf("C20: prod package was built in test mode")
	}
	consts := map[string]interface{}{
		"genesis":                      int64(glow.GenesisTime),
		"report_migration_frequency_s": sc.ReportMigrationFrequency.Seconds(),
		"server_shutdown_time_s":       sc.ServerShutdownTime.Seconds(),
		"api_archive_limit":            sc.ApiArchiveLimit,
		"api_archive_rate_s":           sc.ApiArchiveRate.Seconds(),
		"client_send_report_time_s":    cc.SendReportTime.Seconds(),
		"client_default_multiplier":    cc.DefaultMultiplier,
		"client_default_divider":       cc.DefaultDivider,
		"client_energy_file":           cc.EnergyFile,
	}
	ev.Sample("c20:prod-constants", consts)
	if dir := os.Getenv("VERIF_SHARED"); dir != "" {
		b, _ := json.Marshal(consts)
		if err := os.WriteFile(filepath.Join(dir, "prod_consts.json"), b, 0644); err != nil {
			t.Fatalf("cannot hand the production constants to the main-build job: %v", err)
		}
	}
}

// The pure conversion functions, against the production genesis constant.
func TestC20ProdConversions(t *testing.T) {
	g := int64(glow.GenesisTime)
	const maxSlot = int64(14316557) // floor((2^32-1)/300): no-overflow bound of the 32-bit arithmetic
	check := func(u int64) {
		if u >= g && u-g > 1<<32-1 {
			return // beyond genesis+2^32-1 seconds: outside the property's domain
		}
		want, ok := refSlot(u, g)
		got, err := glow.UnixToTimeslot(u)
		if !ok {
			if err == nil {
				t.Fatalf("C20: UnixToTimeslot(%d) accepted a time before genesis (returned %d)", u, got)
			}
			return
		}
		if err != nil {
			t.Fatalf("C20: UnixToTimeslot(%d) refused a time at/after genesis: %v", u, err)
		}
		if int64(got) != want {
			t.Fatalf("C20: UnixToTimeslot(%d) = %d, want %d", u, got, want)
		}
		back := glow.TimeslotToUnix(got)
		if back != g+300*want {
			t.Fatalf("C20: TimeslotToUnix(%d) = %d, want slot start %d", got, back, g+300*want)
		}
	}
	evals := 0
	for k := int64(0); k <= maxSlot; k++ {
		check(g + 300*k - 1)
		check(g + 300*k)
		check(g + 300*k + 299)
		evals += 3
	}
	for _, u := range []int64{math.MinInt64, math.MinInt64 + 1, math.MinInt64 + g - 1, math.MinInt64 + g, math.MinInt64 + g + 1, -g, -1, 0, 1} {
		check(u)
		evals++
	}
	ev.Exhaustive("c20:prod:all slot boundaries k=0..14316557 (u=G+300k-1, G+300k, G+300k+299)")
	rapid.Check(t, func(t *rapid.T) {
		var u int64
		switch rapid.IntRange(0, 4).Draw(t, "class") {
		case 4:
			// the far end of the int64 range, where "time - genesis" itself wraps
			u = math.MinInt64 + rapid.Int64Range(0, 2*g).Draw(t, "fromMin")
		case 0:
			u = g - rapid.Int64Range(1, 1<<40).Draw(t, "before")
		case 1:
			u = g + rapid.Int64Range(0, 1<<32-1).Draw(t, "after")
		case 2:
			u = rapid.Int64Range(-1<<62, g-1).Draw(t, "farBefore")
		default:
			u = g + 300*rapid.Int64Range(0, maxSlot).Draw(t, "k") + rapid.Int64Range(0, 299).Draw(t, "r")
		}
		check(u)
		u2 := u + rapid.Int64Range(0, 100000).Draw(t, "delta")
		if u >= g && u2-g <= 1<<32-1 {
			a, _ := glow.UnixToTimeslot(u)
			b, _ := glow.UnixToTimeslot(u2)
			if b < a {
				t.Fatalf("C20: conversion not monotone: %d -> %d but %d -> %d", u, a, u2, b)
			}
		}
		evals++
	})
	ev.Eval(evals)
	ev.NonTrivial(fmt.Sprintf("c20|prod|boundaries|%d", maxSlot))
}
