module verif/harness

go 1.23

toolchain go1.23.5

require (
	github.com/ethereum/go-ethereum v1.14.3
	github.com/glowlabs-org/gca-backend v0.0.0
	golang.org/x/crypto v0.23.0
	pgregory.net/rapid v1.3.0
)

require (
	github.com/glowlabs-org/errors v0.0.0-20240512103511-f6f59e80d2a3 // indirect
	github.com/glowlabs-org/threadgroup v0.0.0-20240512114128-232ca7c42d0d // indirect
	github.com/holiman/uint256 v1.2.4 // indirect
)

replace github.com/glowlabs-org/gca-backend => /repo
