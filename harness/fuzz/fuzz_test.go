//go:build test && verif

// Package fuzz holds the native (coverage-guided) fuzz targets. They widen the
// search of the thorough tier; every target carries its semantic oracle inside
// (differential against the reference codec / acceptance rule / model), and
// decodes the fuzzer's bytes into structured arguments so that the fuzzer gets
// past input validation. No target is needed to decide a property.
package fuzz

import (
	"bytes"
	"encoding/binary"
	"fmt"
	"os"
	"strconv"
	"strings"
	"sync"
	"testing"
	"time"

	"github.com/glowlabs-org/gca-backend/client"
	"github.com/glowlabs-org/gca-backend/glow"
	"github.com/glowlabs-org/gca-backend/server"

	"verif/harness/ref"
	"verif/harness/world"
)

func salt() string { return fmt.Sprintf("fuzz-%d-", os.Getpid()) }

// ---- C15: stream decoder, differential against the reference decoder ---------

func FuzzStreamDecoder(f *testing.F) {
	w := ref.Week{Offset: 2016, Devices: []ref.DeviceWeek{{PublicKey: [32]byte{1, 2, 3}}}}
	w.Devices[0].Power[5] = 77
	f.Add(w.Encode())
	f.Add(append(w.Encode(), ref.Week{Offset: 4032}.Encode()...))
	f.Add([]byte{0, 0, 0, 0})
	f.Add(ref.Week{}.Encode())
	f.Fuzz(func(t *testing.T, b []byte) {
		if len(b) >= 4 && binary.LittleEndian.Uint32(b) > 1024 {
			return // the device-count field is capped (DESIGN.md section 6)
		}
		g, n, err := server.DeserializeStreamAllDeviceStats(b)
		r, rn, rerr := ref.DecodeWeekStream(b)
		if (err == nil) != (rerr == nil) {
			t.Fatalf("C15: stream decoder and reference decoder disagree on %d bytes: code err=%v, reference err=%v", len(b), err, rerr)
		}
		if err != nil {
			return
		}
		if n != rn {
			t.Fatalf("C15: stream decoder consumed %d bytes, the record has %d", n, rn)
		}
		if !bytes.Equal(g.Serialize(), r.Encode()) || !bytes.Equal(g.Serialize(), b[:n]) {
			t.Fatalf("C15: decoded record does not re-encode to the bytes it was decoded from")
		}
		if !bytes.Equal(g.SigningBytes(), r.SigningBytes()) {
			t.Fatalf("C15: signing bytes of the decoded record differ from the reference")
		}
	})
}

// ---- C15: client server map ----------------------------------------------------

func FuzzServerMap(f *testing.F) {
	f.Add(ref.EncodeClientServerEntry([32]byte{9}, ref.ClientServer{Location: "127.0.0.1", TcpPort: 5}))
	f.Add([]byte{})
	f.Fuzz(func(t *testing.T, b []byte) {
		m, err := client.UntrustedDeserializeGCAServerMap(b)
		ks, vs, rerr := ref.DecodeClientServerMap(b)
		if (err == nil) != (rerr == nil) {
			t.Fatalf("C15: server map decoder and reference disagree on %d bytes: %v vs %v", len(b), err, rerr)
		}
		if err != nil {
			return
		}
		last := map[[32]byte]ref.ClientServer{}
		for i := range ks {
			last[ks[i]] = vs[i]
		}
		if len(last) != len(m) {
			t.Fatalf("C15: server map has %d entries, reference %d", len(m), len(last))
		}
		for k, v := range last {
			g := m[glow.PublicKey(k)]
			if g.Banned != v.Banned || g.Location != v.Location || g.HttpPort != v.HttpPort || g.TcpPort != v.TcpPort || g.UdpPort != v.UdpPort {
				t.Fatalf("C15: server map entry differs from the reference decoding")
			}
		}
		raw, err := client.SerializeGCAServerMap(m)
		if err != nil {
			t.Fatalf("C15: decoded server map does not serialize: %v", err)
		}
		m2, err := client.UntrustedDeserializeGCAServerMap(raw)
		if err != nil || len(m2) != len(m) {
			t.Fatalf("C15: server map does not round-trip")
		}
	})
}

// ---- C10/C11: the client's reply parser ------------------------------------------

// In test-mode builds every server/client instance panics the process after
// 120 s; long fuzz campaigns therefore recreate their fixtures every 60 s.
const fixtureLifetime = 60 * time.Second

var replyEnv struct {
	created time.Time
	c       *client.Client
	fake    *world.FakeServer
	dev     ref.Key
	gca     ref.Key
	mu      sync.Mutex
	serve   []byte
	entry   client.GCAServer
	cleanD  string
}

func replySetup() {
	client.VerifSetStepping(true)
	e := &replyEnv
	if e.c != nil {
		world.CloseClient(e.c)
		e.fake.Close()
		os.RemoveAll(e.cleanD)
	}
	e.created = time.Now()
	e.dev, e.gca = ref.KeyFromSeed([]byte(salt()+"dev")), ref.KeyFromSeed([]byte(salt()+"gca"))
	e.fake = world.NewFakeServer(ref.KeyFromSeed([]byte(salt() + "srv")))
	e.fake.SetBehaviour(func(int, []byte) world.Action {
		e.mu.Lock()
		defer e.mu.Unlock()
		return world.Action{Kind: "raw", Raw: e.serve}
	})
	dir := world.NewClientDir(world.ClientCfg{Key: e.dev, GCA: e.gca.Pub, ShortID: 3, Energy: "timestamp,energy (mWh)\n",
		Servers: map[[32]byte]ref.ClientServer{e.fake.Key.Pub: e.fake.ClientEntry(false, 9)}})
	e.cleanD = dir
	c, err := world.StartClient(dir)
	if err != nil {
		panic(err)
	}
	e.c = c
	e.entry = client.GCAServer{Location: "127.0.0.1", HttpPort: 1, TcpPort: e.fake.Port, UdpPort: 9}
}

func FuzzSyncReply(f *testing.F) {
	// seeds: a minimal valid reply body (without timestamp and signature), one with an entry
	base := ref.SyncReply{}
	f.Add(uint8(0), base.Body()[:len(base.Body())-8], int64(0))
	f.Add(uint8(1), []byte{1, 2, 3}, int64(0))
	f.Add(uint8(3), bytes.Repeat([]byte{0xff}, 700), int64(90000))
	f.Fuzz(func(t *testing.T, mode uint8, body []byte, tsShift int64) {
		if replyEnv.c == nil || time.Since(replyEnv.created) > fixtureLifetime {
			replySetup()
		}
		e := &replyEnv
		if len(body) > 3000 {
			body = body[:3000]
		}
		// structure-aware decoding: mode bit 0 = put the device key in front, bit 1 = sign
		// entries region as given, bit 2 = sign with a foreign key instead of the server's
		b := append([]byte(nil), body...)
		if mode&1 != 0 && len(b) >= 32 {
			copy(b, e.dev.Pub[:])
		}
		if tsShift > 200000 || tsShift < -200000 {
			tsShift %= 200000
		}
		var ts [8]byte
		now := time.Now().Unix()
		binary.LittleEndian.PutUint64(ts[:], uint64(now+tsShift))
		b = append(b, ts[:]...)
		signer := e.fake.Key
		if mode&4 != 0 {
			signer = e.gca
		}
		sig := ref.Sign(signer, b)
		b = append(b, sig[:]...)
		e.mu.Lock()
		e.serve = world.Frame(b)
		e.mu.Unlock()
		_, w1 := ref.AcceptSyncReply(b, e.fake.Key.Pub, e.dev.Pub, e.gca.Pub, now-5, ref.Verify)
		_, w2 := ref.AcceptSyncReply(b, e.fake.Key.Pub, e.dev.Pub, e.gca.Pub, now+5, ref.Verify)
		var err error
		func() {
			defer func() {
				if r := recover(); r != nil {
					t.Fatalf("C11: the client's reply parser panicked on a %d-byte reply: %v", len(b), r)
				}
			}()
			_, _, _, _, _, err = e.c.VerifServerSync(e.entry, glow.PublicKey(e.fake.Key.Pub), glow.PublicKey(e.gca.Pub))
		}()
		if w1 != "" && w2 != "" && err == nil {
			t.Fatalf("C10: the client accepted a reply the reference rule rejects (%s)", w1)
		}
		if w1 == "" && w2 == "" && err != nil {
			t.Fatalf("C10: the client rejected a reply the reference rule accepts: %v", err)
		}
	})
}

// ---- C16: energy file ---------------------------------------------------------------

var energyEnv struct {
	c       *client.Client
	dir     string
	created time.Time
}

func FuzzEnergyFile(f *testing.F) {
	g := int64(glow.GenesisTime)
	f.Add([]byte(fmt.Sprintf("timestamp,energy (mWh)\n%d,100\n%d,-3.5e3\n", g+10, g+400)))
	f.Add([]byte(fmt.Sprintf("%d\n", g+10)))
	f.Add([]byte(fmt.Sprintf("%d,\"1\"\"0\"\n%d,24\n", g+10, g+700)))
	f.Add([]byte("a,b,c\n1,2\n"))
	f.Fuzz(func(t *testing.T, content []byte) {
		if energyEnv.c == nil || time.Since(energyEnv.created) > fixtureLifetime {
			if energyEnv.c != nil {
				world.CloseClient(energyEnv.c)
				os.RemoveAll(energyEnv.dir)
			}
			energyEnv.created = time.Now()
			client.VerifSetStepping(true)
			dir := world.NewClientDir(world.ClientCfg{Key: ref.KeyFromSeed([]byte(salt() + "e-dev")), GCA: ref.KeyFromSeed([]byte(salt() + "e-gca")).Pub, ShortID: 3, Energy: "timestamp,energy (mWh)\n",
				Servers: map[[32]byte]ref.ClientServer{{1}: {Location: "127.0.0.1", TcpPort: 1, UdpPort: 9}}})
			c, err := world.StartClient(dir)
			if err != nil {
				panic(err)
			}
			energyEnv.c, energyEnv.dir = c, dir
		}
		if len(content) > 4000 {
			content = content[:4000]
		}
		world.WriteEnergy(energyEnv.dir, string(content))
		var recs []client.EnergyRecord
		var err error
		func() {
			defer func() {
				if r := recover(); r != nil {
					t.Fatalf("C16: reading the energy file panicked: %v\nfile: %q", r, content)
				}
			}()
			recs, err = energyEnv.c.VerifReadEnergyFile()
		}()
		if err != nil {
			return
		}
		// exact oracle for "simple" files: every line has exactly one comma and no quote or CR
		s := string(content)
		if strings.ContainsAny(s, "\"\r") {
			return
		}
		lines := strings.Split(s, "\n")
		type rec struct {
			slot uint32
			val  uint64
		}
		var want []rec
		first := true
		for _, l := range lines {
			if l == "" {
				continue
			}
			if strings.Count(l, ",") != 1 {
				if first {
					return // the first record fixes the column count; not a simple file
				}
				break // the reader stops at a row with another column count
			}
			first = false
			parts := strings.SplitN(l, ",", 2)
			ts, perr := strconv.ParseInt(parts[0], 10, 64)
			if perr != nil || ts < g || ts-g > 1<<32-1 {
				if perr == nil && ts-g > 1<<32-1 {
					return // beyond the conversion's domain
				}
				continue
			}
			x, ferr := strconv.ParseFloat(parts[1], 64)
			var v uint64
			switch {
			case ferr != nil:
				v = 3
			case x > -24 && x < 24:
				v = 2
			default:
				y := 1000 * x / 1000
				if y != y || y > 9e18 || y < -9e18 {
					return // outside the checked domain
				}
				v = uint64(int64(y))
			}
			want = append(want, rec{uint32((ts - g) / 300), v})
		}
		if len(recs) != len(want) {
			t.Fatalf("C16: %d records returned, the rules give %d; file: %q", len(recs), len(want), content)
		}
		for i := range want {
			if recs[i].Timeslot != want[i].slot || recs[i].Energy != want[i].val {
				t.Fatalf("C16: record %d is (slot %d, value %d), the rules give (slot %d, value %d); file: %q", i, recs[i].Timeslot, recs[i].Energy, want[i].slot, want[i].val, content)
			}
		}
	})
}

// ---- C01/C12: datagrams against a live server ------------------------------------------

var dgEnv struct {
	s       *world.Server
	dev     ref.Key
	m       *ref.Model
	created time.Time
}

func FuzzDatagram(f *testing.F) {
	f.Add(uint8(1), uint32(7), uint32(100), uint64(500), []byte{})
	f.Add(uint8(0), uint32(7), uint32(100), uint64(500), []byte{1})
	f.Add(uint8(1), uint32(7), uint32(4032), uint64(1<<63), []byte{0, 0, 0})
	f.Add(uint8(3), uint32(8), uint32(0), uint64(2), bytes.Repeat([]byte{9}, 100))
	f.Fuzz(func(t *testing.T, mode uint8, id, slot uint32, power uint64, tail []byte) {
		if dgEnv.s == nil || time.Since(dgEnv.created) > fixtureLifetime {
			if dgEnv.s != nil {
				glow.SetCurrentTimeslot(0)
				dgEnv.s.Close()
				os.RemoveAll(dgEnv.s.Dir)
			}
			dgEnv.created = time.Now()
			server.VerifSetStepping(true)
			glow.SetCurrentTimeslot(100)
			temp, gca := ref.KeyFromSeed([]byte(salt()+"temp")), ref.KeyFromSeed([]byte(salt()+"gca"))
			dgEnv.dev = ref.KeyFromSeed([]byte(salt() + "dg-dev"))
			dir := world.NewServerDir(temp.Pub)
			s, err := world.StartServer(dir)
			if err != nil {
				panic(err)
			}
			s.Register(gca.Pub, temp)
			a := ref.Auth{ShortID: 7, PublicKey: dgEnv.dev.Pub, Capacity: 1000}
			a.Sig = ref.Sign(gca, a.SigningBytes())
			s.Authorize(a)
			dgEnv.s = s
			dgEnv.m = ref.NewModel(temp.Pub)
			dgEnv.m.Registered, dgEnv.m.GCA = true, gca.Pub
			dgEnv.m.Authorize(a)
		}
		if len(tail) > 150 {
			tail = tail[:150]
		}
		// the clock moves with the input so that every region of the window is reachable
		now := uint32(100)
		if mode&8 != 0 {
			now = slot%4500 + uint32(len(tail))
		}
		glow.SetCurrentTimeslot(now)
		r := ref.Report{ShortID: id, Timeslot: slot, Power: power}
		if mode&2 != 0 {
			r.ShortID = 7
		}
		if mode&1 != 0 {
			r.Sig = ref.Sign(dgEnv.dev, r.SigningBytes())
		}
		b := append(r.Encode(), tail...)
		if mode&4 != 0 && len(tail) > 0 {
			b = b[:int(tail[0])%len(b)] // truncation
		}
		v := dgEnv.m.Judge(b, now, ref.Verify)
		if v.Accept {
			dgEnv.m.Apply(v.Report)
		}
		if err := dgEnv.s.SendUDP(b); err != nil {
			t.Fatalf("C12: datagram not processed: %v (panics %+v)", err, server.VerifPanics())
		}
		if ps := server.VerifPanics(); len(ps) > 0 {
			t.Fatalf("C12: server goroutine panicked on a datagram: %s: %s", ps[0].Where, ps[0].Value)
		}
		snap := dgEnv.s.VerifSnapshot()
		if v.Accept || mode&16 != 0 {
			// full comparison of the device's slots with the model
			for i := range dgEnv.m.Live[7] {
				if got, want := snap.Reports[7][i].PowerOutput, dgEnv.m.Live[7][i].Value(); got != want {
					t.Fatalf("C01: after a datagram (accept=%v %s) slot %d holds %d, the rules give %d", v.Accept, v.Reason, i, got, want)
				}
			}
		} else if int64(slot) < 4032 {
			if got, want := snap.Reports[7][slot].PowerOutput, dgEnv.m.Live[7][slot].Value(); got != want {
				t.Fatalf("C01: a rejected datagram (%s) changed slot %d to %d (rules: %d)", v.Reason, slot, got, want)
			}
		}
	})
}

// ---- C12: HTTP surface ------------------------------------------------------------

var httpEnv struct {
	s       *world.Server
	gca     ref.Key
	created time.Time
	n       int
}

var httpRoutes = []string{"/api/v1/all-device-stats", "/api/v1/authorized-servers", "/api/v1/authorize-equipment", "/api/v1/equipment", "/api/v1/equipment-migrate", "/api/v1/register-gca", "/api/v1/recent-reports", "/api/v1/archive", "/api/v1/geo-stats"}
var httpMethods = []string{"GET", "POST", "PUT", "DELETE", "HEAD", "PATCH"}

func FuzzHTTP(f *testing.F) {
	f.Add(uint8(0), uint8(0), "timeslot_offset=0", []byte{})
	f.Add(uint8(2), uint8(1), "", []byte(`{"ShortID":1}`))
	f.Add(uint8(2), uint8(0x41), "", bytes.Repeat([]byte{7}, 90))
	f.Add(uint8(6), uint8(0), "publicKey=00", []byte{})
	f.Add(uint8(1), uint8(0x81), "", bytes.Repeat([]byte{3}, 60))
	f.Fuzz(func(t *testing.T, route, mode uint8, query string, body []byte) {
		if httpEnv.s == nil || time.Since(httpEnv.created) > fixtureLifetime {
			if httpEnv.s != nil {
				glow.SetCurrentTimeslot(0)
				httpEnv.s.Close()
				os.RemoveAll(httpEnv.s.Dir)
			}
			httpEnv.created = time.Now()
			server.VerifSetStepping(true)
			glow.SetCurrentTimeslot(100)
			temp := ref.KeyFromSeed([]byte(salt() + "h-temp"))
			httpEnv.gca = ref.KeyFromSeed([]byte(salt() + "h-gca"))
			s, err := world.StartServer(world.NewServerDir(temp.Pub))
			if err != nil {
				panic(err)
			}
			s.Register(httpEnv.gca.Pub, temp)
			httpEnv.s = s
		}
		if len(body) > 4000 {
			body = body[:4000]
		}
		if len(query) > 200 {
			query = query[:200]
		}
		r := httpRoutes[int(route)%len(httpRoutes)]
		m := httpMethods[int(mode&0x0f)%len(httpMethods)]
		// structure-aware layers: turn the bytes into a validly signed payload
		switch {
		case mode&0x40 != 0 && len(body) >= 60: // GCA-signed authorization with fuzzer-chosen field values
			id := uint32(body[0] % 8)
			a := ref.Auth{ShortID: id, PublicKey: ref.KeyFromSeed([]byte(fmt.Sprintf("%sdev%d", salt(), id))).Pub,
				Latitude: float64(int8(body[1])), Longitude: float64(int8(body[2])) * 1.5,
				Capacity: binary.LittleEndian.Uint64(body[4:]), Debt: binary.LittleEndian.Uint64(body[12:]), Expiration: binary.LittleEndian.Uint32(body[20:]),
				Initialization: binary.LittleEndian.Uint32(body[24:]), ProtocolFee: binary.LittleEndian.Uint64(body[28:])}
			a.Sig = ref.Sign(httpEnv.gca, a.SigningBytes())
			st, _, err := httpEnv.s.Authorize(a)
			_ = st
			if err != nil {
				t.Fatalf("C12: authorization request got no response: %v (panics %+v)", err, server.VerifPanics())
			}
		case mode&0x80 != 0 && len(body) >= 40: // GCA-signed server authorization
			as := ref.AuthServer{PublicKey: ref.KeyFromSeed([]byte(fmt.Sprintf("%speer%d", salt(), body[0]%6))).Pub, Banned: body[1]&1 != 0,
				Location: string(body[8 : 8+int(body[2])%32]), HttpPort: uint16(body[3]%2) * 8, TcpPort: binary.LittleEndian.Uint16(body[4:]), UdpPort: binary.LittleEndian.Uint16(body[6:])}
			as.Sig = ref.Sign(httpEnv.gca, as.SigningBytes())
			if _, _, err := httpEnv.s.PostJSON("/api/v1/authorized-servers", world.ToGlowServer(as)); err != nil {
				t.Fatalf("C12: server authorization request got no response: %v (panics %+v)", err, server.VerifPanics())
			}
		default:
			path := r
			if query != "" {
				path += "?" + strings.Map(func(c rune) rune {
					if c <= ' ' || c > '~' || c == '#' {
						return '_'
					}
					return c
				}, query)
			}
			_, _, err := httpEnv.s.Do(m, path, body)
			if err != nil && !strings.Contains(err.Error(), "invalid") && !strings.Contains(err.Error(), "malformed") {
				if ps := server.VerifPanics(); len(ps) > 0 {
					t.Fatalf("C12: handler panicked on %s %s: %s", m, path, ps[0].Value)
				}
				if len(body) == 0 { // with a body, a reset caused by net/http closing early is not the server's doing (see world.HTTPOnce)
					t.Fatalf("C12: %s %s got no response: %v", m, path, err)
				}
			}
		}
		if ps := server.VerifPanics(); len(ps) > 0 {
			t.Fatalf("C12: server panicked on %s %s (mode %#x): %s: %s", m, r, mode, ps[0].Where, ps[0].Value)
		}
		httpEnv.n++
		if httpEnv.n%50 == 0 {
			if st, _, err := httpEnv.s.Get("/api/v1/equipment"); err != nil || st != 200 {
				t.Fatalf("C12: liveness probe failed: %v %d", err, st)
			}
			var a, b bool
			world.WaitActive(500*time.Millisecond, time.Millisecond, func() bool { a, b = httpEnv.s.S.VerifTryLocks(); return a && b })
			if !a || !b {
				t.Fatalf("C12: a server mutex is held at quiescence")
			}
		}
	})
}
