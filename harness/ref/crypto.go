// Package ref holds the reference side of every oracle: encoders written from
// the documented layouts, a signature verifier that does not go through the
// glow package, and the reference models of the server and of the client.
package ref

import (
	"crypto/elliptic"
	"math/big"
	"sync"

	ethcrypto "github.com/ethereum/go-ethereum/crypto"
	"github.com/ethereum/go-ethereum/crypto/secp256k1"
	"golang.org/x/crypto/sha3"
)

// Key is a key pair in the representation the protocol uses: the public key is
// the 32-byte x coordinate, the y coordinate is implied to be even.
type Key struct {
	Pub  [32]byte
	Priv [32]byte
}

func curve() elliptic.Curve { return secp256k1.S256() }

// Keccak returns the legacy Keccak-256 digest.
func Keccak(data []byte) []byte {
	h := sha3.NewLegacyKeccak256()
	h.Write(data)
	return h.Sum(nil)
}

// KeyFromSeed derives a key pair deterministically from seed bytes. The
// private scalar is negated when the public point would have an odd y.
func KeyFromSeed(seed []byte) Key {
	n := curve().Params().N
	for ctr := byte(0); ; ctr++ {
		d := new(big.Int).SetBytes(Keccak(append([]byte{ctr}, seed...)))
		d.Mod(d, n)
		if d.Sign() == 0 {
			continue
		}
		x, y := curve().ScalarBaseMult(pad32(d))
		if y.Bit(0) == 1 {
			d.Sub(n, d)
			x, y = curve().ScalarBaseMult(pad32(d))
		}
		if y.Bit(0) == 1 {
			panic("ref: parity normalisation failed")
		}
		var k Key
		copy(k.Pub[:], pad32(x))
		copy(k.Priv[:], pad32(d))
		return k
	}
}

func pad32(v *big.Int) []byte {
	b := v.Bytes()
	if len(b) > 32 {
		panic("ref: value does not fit 32 bytes")
	}
	out := make([]byte, 32)
	copy(out[32-len(b):], b)
	return out
}

// Verify is the reference verifier: compressed key 0x02||pub, Keccak-256 of
// the message, 64-byte r||s signature, low-s only (as libsecp256k1 enforces).
func Verify(pub [32]byte, msg []byte, sig [64]byte) bool {
	comp := append([]byte{0x02}, pub[:]...)
	return secp256k1.VerifySignature(comp, Keccak(msg), sig[:])
}

// VerifyBig is a second, arithmetic-only verifier (math/big on the curve
// parameters); used to cross-check Verify itself.
func VerifyBig(pub [32]byte, msg []byte, sig [64]byte) bool {
	c := curve()
	p := c.Params()
	x := new(big.Int).SetBytes(pub[:])
	// y^2 = x^3 + 7
	y2 := new(big.Int).Exp(x, big.NewInt(3), p.P)
	y2.Add(y2, big.NewInt(7)).Mod(y2, p.P)
	y := new(big.Int).ModSqrt(y2, p.P)
	if y == nil || x.Cmp(p.P) >= 0 {
		return false
	}
	if y.Bit(0) == 1 {
		y.Sub(p.P, y)
	}
	r := new(big.Int).SetBytes(sig[:32])
	s := new(big.Int).SetBytes(sig[32:])
	if r.Sign() == 0 || s.Sign() == 0 || r.Cmp(p.N) >= 0 || s.Cmp(p.N) >= 0 {
		return false
	}
	half := new(big.Int).Rsh(p.N, 1)
	if s.Cmp(half) > 0 {
		return false
	}
	z := new(big.Int).SetBytes(Keccak(msg))
	w := new(big.Int).ModInverse(s, p.N)
	u1 := new(big.Int).Mul(z, w)
	u1.Mod(u1, p.N)
	u2 := new(big.Int).Mul(r, w)
	u2.Mod(u2, p.N)
	x1, y1 := c.ScalarBaseMult(pad32(u1))
	x2, y2b := c.ScalarMult(x, y, pad32(u2))
	var rx *big.Int
	if u1.Sign() == 0 {
		rx = x2
	} else if u2.Sign() == 0 {
		rx = x1
	} else {
		rx, _ = c.Add(x1, y1, x2, y2b)
	}
	if rx == nil {
		return false
	}
	rx.Mod(rx, p.N)
	return rx.Cmp(r) == 0
}

// Sign produces the deterministic (RFC 6979) signature go-ethereum produces.
func Sign(k Key, msg []byte) [64]byte {
	priv, err := ethcrypto.ToECDSA(k.Priv[:])
	if err != nil {
		panic(err)
	}
	sig, err := ethcrypto.Sign(Keccak(msg), priv)
	if err != nil {
		panic(err)
	}
	var out [64]byte
	copy(out[:], sig[:64])
	return out
}

// SignWithNonce signs with a caller-chosen nonce, so that a second, different
// but equally valid signature over the same content can be produced. The
// result is low-s normalised. ok is false if the nonce is unusable.
func SignWithNonce(k Key, msg []byte, nonce []byte) (sig [64]byte, ok bool) {
	c := curve()
	n := c.Params().N
	kk := new(big.Int).SetBytes(Keccak(nonce))
	kk.Mod(kk, n)
	if kk.Sign() == 0 {
		return sig, false
	}
	rx, _ := c.ScalarBaseMult(pad32(kk))
	r := new(big.Int).Mod(rx, n)
	if r.Sign() == 0 {
		return sig, false
	}
	d := new(big.Int).SetBytes(k.Priv[:])
	z := new(big.Int).SetBytes(Keccak(msg))
	s := new(big.Int).Mul(r, d)
	s.Add(s, z)
	s.Mul(s, new(big.Int).ModInverse(kk, n))
	s.Mod(s, n)
	if s.Sign() == 0 {
		return sig, false
	}
	half := new(big.Int).Rsh(n, 1)
	if s.Cmp(half) > 0 {
		s.Sub(n, s)
	}
	copy(sig[:32], pad32(r))
	copy(sig[32:], pad32(s))
	return sig, true
}

// zero-tail signing: a table of nonces with their r and k^-1 is built once, so
// that many candidate signatures per message cost only modular multiplications.
var (
	ztOnce sync.Once
	ztR    []*big.Int
	ztKinv []*big.Int
)

// SignZeroTail returns a valid low-s signature whose last byte is zero (found
// by trying the nonces of the table; about one in 256 fits). ok is false if no
// nonce of the table fits. The choice is a pure function of key and message.
func SignZeroTail(k Key, msg []byte) (sig [64]byte, ok bool) {
	c := curve()
	n := c.Params().N
	ztOnce.Do(func() {
		for i := 0; i < 1536; i++ {
			kk := new(big.Int).SetBytes(Keccak([]byte{'z', 't', byte(i), byte(i >> 8)}))
			kk.Mod(kk, n)
			if kk.Sign() == 0 {
				continue
			}
			rx, _ := c.ScalarBaseMult(pad32(kk))
			r := new(big.Int).Mod(rx, n)
			if r.Sign() == 0 {
				continue
			}
			ztR = append(ztR, r)
			ztKinv = append(ztKinv, new(big.Int).ModInverse(kk, n))
		}
	})
	d := new(big.Int).SetBytes(k.Priv[:])
	z := new(big.Int).SetBytes(Keccak(msg))
	half := new(big.Int).Rsh(n, 1)
	s := new(big.Int)
	for i := range ztR {
		s.Mul(ztR[i], d)
		s.Add(s, z)
		s.Mul(s, ztKinv[i])
		s.Mod(s, n)
		if s.Sign() == 0 {
			continue
		}
		if s.Cmp(half) > 0 {
			s.Sub(n, s)
		}
		if s.Bits()[0]&0xff != 0 {
			continue
		}
		copy(sig[:32], pad32(ztR[i]))
		copy(sig[32:], pad32(s))
		return sig, true
	}
	return sig, false
}

// HighSTwin returns (r, N-s): the other ECDSA solution for the same message and
// key, which can be computed by anyone without the private key.
func HighSTwin(sig [64]byte) [64]byte {
	n := curve().Params().N
	s := new(big.Int).SetBytes(sig[32:])
	s.Sub(n, s)
	var out [64]byte
	copy(out[:32], sig[:32])
	copy(out[32:], pad32(s))
	return out
}

// MirrorKey returns the key pair with private key N-d: its public point has
// the same X coordinate as k's and the opposite Y, so the 32-byte public key
// (X only, even Y implied) is the same string although the key is another one.
func MirrorKey(k Key) Key {
	n := curve().Params().N
	d := new(big.Int).SetBytes(k.Priv[:])
	d.Sub(n, d)
	out := Key{Pub: k.Pub}
	copy(out.Priv[:], pad32(d))
	return out
}
