package ref

import (
	"encoding/binary"
	"errors"
	"math"
)

// All encoders below are written from the documented layouts: little-endian
// fixed-width fields in declaration order; signing bytes are the ASCII name
// of the structure followed by the fields without the signature.

type Report struct {
	ShortID  uint32
	Timeslot uint32
	Power    uint64
	Sig      [64]byte
}

func (r Report) Body() []byte {
	b := make([]byte, 16)
	binary.LittleEndian.PutUint32(b[0:], r.ShortID)
	binary.LittleEndian.PutUint32(b[4:], r.Timeslot)
	binary.LittleEndian.PutUint64(b[8:], r.Power)
	return b
}
func (r Report) Encode() []byte       { return append(r.Body(), r.Sig[:]...) }
func (r Report) SigningBytes() []byte { return append([]byte("EquipmentReport"), r.Body()...) }

func DecodeReport(b []byte) (Report, error) {
	var r Report
	if len(b) != 80 {
		return r, errors.New("report: need 80 bytes")
	}
	r.ShortID = binary.LittleEndian.Uint32(b[0:])
	r.Timeslot = binary.LittleEndian.Uint32(b[4:])
	r.Power = binary.LittleEndian.Uint64(b[8:])
	copy(r.Sig[:], b[16:])
	return r, nil
}

// SignedReport builds a report signed with the deterministic signer.
func SignedReport(k Key, id, slot uint32, power uint64) Report {
	r := Report{ShortID: id, Timeslot: slot, Power: power}
	r.Sig = Sign(k, r.SigningBytes())
	return r
}

type Auth struct {
	ShortID        uint32
	PublicKey      [32]byte
	Latitude       float64
	Longitude      float64
	Capacity       uint64
	Debt           uint64
	Expiration     uint32
	Initialization uint32
	ProtocolFee    uint64
	Sig            [64]byte
}

func (a Auth) Body() []byte {
	b := make([]byte, 84)
	binary.LittleEndian.PutUint32(b[0:], a.ShortID)
	copy(b[4:36], a.PublicKey[:])
	binary.LittleEndian.PutUint64(b[36:], math.Float64bits(a.Latitude))
	binary.LittleEndian.PutUint64(b[44:], math.Float64bits(a.Longitude))
	binary.LittleEndian.PutUint64(b[52:], a.Capacity)
	binary.LittleEndian.PutUint64(b[60:], a.Debt)
	binary.LittleEndian.PutUint32(b[68:], a.Expiration)
	binary.LittleEndian.PutUint32(b[72:], a.Initialization)
	binary.LittleEndian.PutUint64(b[76:], a.ProtocolFee)
	return b
}
func (a Auth) Encode() []byte       { return append(a.Body(), a.Sig[:]...) }
func (a Auth) SigningBytes() []byte { return append([]byte("EquipmentAuthorization"), a.Body()...) }

func DecodeAuth(b []byte) (Auth, error) {
	var a Auth
	if len(b) != 148 {
		return a, errors.New("auth: need 148 bytes")
	}
	a.ShortID = binary.LittleEndian.Uint32(b[0:])
	copy(a.PublicKey[:], b[4:36])
	a.Latitude = math.Float64frombits(binary.LittleEndian.Uint64(b[36:]))
	a.Longitude = math.Float64frombits(binary.LittleEndian.Uint64(b[44:]))
	a.Capacity = binary.LittleEndian.Uint64(b[52:])
	a.Debt = binary.LittleEndian.Uint64(b[60:])
	a.Expiration = binary.LittleEndian.Uint32(b[68:])
	a.Initialization = binary.LittleEndian.Uint32(b[72:])
	a.ProtocolFee = binary.LittleEndian.Uint64(b[76:])
	copy(a.Sig[:], b[84:])
	return a, nil
}

type DeviceWeek struct {
	PublicKey [32]byte
	Power     [2016]uint64
	Impact    [2016]float64
}

type Week struct {
	Devices []DeviceWeek
	Offset  uint32
	Sig     [64]byte
}

const DeviceWeekSize = 32 + 2016*8*2

func (w Week) Body() []byte {
	b := make([]byte, 0, 4+len(w.Devices)*DeviceWeekSize+4)
	var u4 [4]byte
	var u8 [8]byte
	binary.LittleEndian.PutUint32(u4[:], uint32(len(w.Devices)))
	b = append(b, u4[:]...)
	for i := range w.Devices {
		d := &w.Devices[i]
		b = append(b, d.PublicKey[:]...)
		for _, p := range d.Power {
			binary.LittleEndian.PutUint64(u8[:], p)
			b = append(b, u8[:]...)
		}
		for _, f := range d.Impact {
			binary.LittleEndian.PutUint64(u8[:], math.Float64bits(f))
			b = append(b, u8[:]...)
		}
	}
	binary.LittleEndian.PutUint32(u4[:], w.Offset)
	b = append(b, u4[:]...)
	return b
}
func (w Week) Encode() []byte       { return append(w.Body(), w.Sig[:]...) }
func (w Week) SigningBytes() []byte { return append([]byte("AllDeviceStats"), w.Body()...) }

// DecodeWeekStream decodes one record from the front of b and returns how many
// bytes it occupied.
func DecodeWeekStream(b []byte) (Week, int, error) {
	var w Week
	if len(b) < 4 {
		return w, 0, errors.New("week: short")
	}
	n := int(binary.LittleEndian.Uint32(b))
	need := 4 + n*DeviceWeekSize + 4 + 64
	if n < 0 || need < 0 || len(b) < need {
		return w, 0, errors.New("week: truncated")
	}
	i := 4
	w.Devices = make([]DeviceWeek, n)
	for d := 0; d < n; d++ {
		copy(w.Devices[d].PublicKey[:], b[i:])
		i += 32
		for j := 0; j < 2016; j++ {
			w.Devices[d].Power[j] = binary.LittleEndian.Uint64(b[i:])
			i += 8
		}
		for j := 0; j < 2016; j++ {
			w.Devices[d].Impact[j] = math.Float64frombits(binary.LittleEndian.Uint64(b[i:]))
			i += 8
		}
	}
	w.Offset = binary.LittleEndian.Uint32(b[i:])
	i += 4
	copy(w.Sig[:], b[i:])
	i += 64
	return w, i, nil
}

type AuthServer struct {
	PublicKey [32]byte
	Banned    bool
	Location  string
	HttpPort  uint16
	TcpPort   uint16
	UdpPort   uint16
	Sig       [64]byte
}

func (s AuthServer) Body() []byte {
	b := make([]byte, 0, 40+len(s.Location))
	b = append(b, s.PublicKey[:]...)
	if s.Banned {
		b = append(b, 1)
	} else {
		b = append(b, 0)
	}
	b = append(b, byte(len(s.Location)))
	b = append(b, s.Location...)
	var u2 [2]byte
	for _, p := range []uint16{s.HttpPort, s.TcpPort, s.UdpPort} {
		binary.LittleEndian.PutUint16(u2[:], p)
		b = append(b, u2[:]...)
	}
	return b
}
func (s AuthServer) Encode() []byte       { return append(s.Body(), s.Sig[:]...) }
func (s AuthServer) SigningBytes() []byte { return append([]byte("AuthorizedServer"), s.Body()...) }

type Migration struct {
	Equipment  [32]byte
	NewGCA     [32]byte
	NewShortID uint32
	NewServers []AuthServer
	Sig        [64]byte
}

func (m Migration) Body() []byte {
	b := make([]byte, 0, 68)
	b = append(b, m.Equipment[:]...)
	b = append(b, m.NewGCA[:]...)
	var u4 [4]byte
	binary.LittleEndian.PutUint32(u4[:], m.NewShortID)
	b = append(b, u4[:]...)
	for _, s := range m.NewServers {
		b = append(b, s.Encode()...)
	}
	return b
}
func (m Migration) Encode() []byte       { return append(m.Body(), m.Sig[:]...) }
func (m Migration) SigningBytes() []byte { return append([]byte("EquipmentMigration"), m.Body()...) }

type Registration struct {
	GCAKey [32]byte
	Sig    [64]byte
}

func (g Registration) SigningBytes() []byte { return append([]byte("GCARegistration"), g.GCAKey[:]...) }

// ClientServer is one entry of the client's server map file.
type ClientServer struct {
	Banned   bool
	Location string
	HttpPort uint16
	TcpPort  uint16
	UdpPort  uint16
}

func EncodeClientServerEntry(key [32]byte, s ClientServer) []byte {
	b := make([]byte, 0, 41+len(s.Location))
	b = append(b, key[:]...)
	if s.Banned {
		b = append(b, 1)
	} else {
		b = append(b, 0)
	}
	var u2 [2]byte
	binary.LittleEndian.PutUint16(u2[:], uint16(len(s.Location)))
	b = append(b, u2[:]...)
	b = append(b, s.Location...)
	for _, p := range []uint16{s.HttpPort, s.TcpPort, s.UdpPort} {
		binary.LittleEndian.PutUint16(u2[:], p)
		b = append(b, u2[:]...)
	}
	return b
}

// DecodeClientServerMap decodes a server-map file into entries in file order.
func DecodeClientServerMap(b []byte) (keys [][32]byte, vals []ClientServer, err error) {
	for len(b) > 0 {
		if len(b) < 35 {
			return nil, nil, errors.New("server map: truncated header")
		}
		var k [32]byte
		copy(k[:], b)
		var s ClientServer
		s.Banned = b[32] != 0
		l := int(binary.LittleEndian.Uint16(b[33:]))
		if len(b) < 35+l+6 {
			return nil, nil, errors.New("server map: truncated entry")
		}
		s.Location = string(b[35 : 35+l])
		s.HttpPort = binary.LittleEndian.Uint16(b[35+l:])
		s.TcpPort = binary.LittleEndian.Uint16(b[37+l:])
		s.UdpPort = binary.LittleEndian.Uint16(b[39+l:])
		keys = append(keys, k)
		vals = append(vals, s)
		b = b[41+l:]
	}
	return keys, vals, nil
}

// SyncReply is the parsed form of the TCP synchronisation reply (without the
// two-byte length prefix).
type SyncReply struct {
	DeviceKey  [32]byte
	Offset     uint32
	Bitfield   [504]byte
	NewGCA     [32]byte
	NewShortID uint32
	Servers    []AuthServer
	GCASig     [64]byte // signature of the current GCA over the migration order, zero if none
	Timestamp  uint64
	Sig        [64]byte // signature by the answering server over everything before it
}

func (r SyncReply) Body() []byte {
	b := make([]byte, 0, 712)
	b = append(b, r.DeviceKey[:]...)
	var u4 [4]byte
	var u8 [8]byte
	binary.LittleEndian.PutUint32(u4[:], r.Offset)
	b = append(b, u4[:]...)
	b = append(b, r.Bitfield[:]...)
	b = append(b, r.NewGCA[:]...)
	binary.LittleEndian.PutUint32(u4[:], r.NewShortID)
	b = append(b, u4[:]...)
	for _, s := range r.Servers {
		b = append(b, s.Encode()...)
	}
	b = append(b, r.GCASig[:]...)
	binary.LittleEndian.PutUint64(u8[:], r.Timestamp)
	b = append(b, u8[:]...)
	return b
}
func (r SyncReply) Encode() []byte { return append(r.Body(), r.Sig[:]...) }

// DecodeSyncReply parses a reply strictly.
func DecodeSyncReply(b []byte) (SyncReply, error) {
	var r SyncReply
	if len(b) < 32+4+504+32+4+64+8+64 {
		return r, errors.New("sync reply: too short")
	}
	copy(r.DeviceKey[:], b)
	r.Offset = binary.LittleEndian.Uint32(b[32:])
	copy(r.Bitfield[:], b[36:540])
	copy(r.NewGCA[:], b[540:572])
	r.NewShortID = binary.LittleEndian.Uint32(b[572:])
	end := len(b) - 136
	i := 576
	for i < end {
		if i+34 > end {
			return r, errors.New("sync reply: truncated server header")
		}
		var s AuthServer
		copy(s.PublicKey[:], b[i:])
		s.Banned = b[i+32] != 0
		l := int(b[i+33])
		if i+34+l+70 > end {
			return r, errors.New("sync reply: truncated server entry")
		}
		s.Location = string(b[i+34 : i+34+l])
		s.HttpPort = binary.LittleEndian.Uint16(b[i+34+l:])
		s.TcpPort = binary.LittleEndian.Uint16(b[i+36+l:])
		s.UdpPort = binary.LittleEndian.Uint16(b[i+38+l:])
		copy(s.Sig[:], b[i+40+l:])
		r.Servers = append(r.Servers, s)
		i += 104 + l
	}
	copy(r.GCASig[:], b[end:end+64])
	r.Timestamp = binary.LittleEndian.Uint64(b[end+64:])
	copy(r.Sig[:], b[end+72:])
	return r, nil
}

// AcceptSyncReply is the reference acceptance rule of the client for a sync
// reply (C10): signed by the contacted server, at most 24 h from the client's
// clock, bound to the client's device key, a migration order only with the
// current GCA's signature over "EquipmentMigration"||device key||new GCA||new
// id||servers, and every server entry signed by the GCA that applies (the new
// one if there is a migration, else the current one). now is Unix seconds;
// slack widens the freshness window (for tolerance-aware oracles).
func AcceptSyncReply(body []byte, serverKey, deviceKey, gcaKey [32]byte, now int64, verify func([32]byte, []byte, [64]byte) bool) (SyncReply, string) {
	r, err := DecodeSyncReply(body)
	if err != nil {
		return r, "malformed: " + err.Error()
	}
	d := int64(r.Timestamp) - now
	if int64(r.Timestamp) < 0 || d > 24*3600 || d < -24*3600 {
		return r, "timestamp out of range"
	}
	// the signature covers the bytes as received, not a re-encoding (a reply
	// whose ban flag byte is 3 decodes like one with 1 but is a different message)
	if !verify(serverKey, body[:len(body)-64], r.Sig) {
		return r, "server signature invalid"
	}
	if r.DeviceKey != deviceKey {
		return r, "bound to another device"
	}
	applicable := gcaKey
	if r.NewGCA != ([32]byte{}) {
		m := Migration{Equipment: r.DeviceKey, NewGCA: r.NewGCA, NewShortID: r.NewShortID, NewServers: r.Servers}
		if !verify(gcaKey, m.SigningBytes(), r.GCASig) {
			return r, "migration order not signed by the GCA"
		}
		applicable = r.NewGCA
	}
	for i, s := range r.Servers {
		if !verify(applicable, s.SigningBytes(), s.Sig) {
			return r, "server entry " + string(rune('0'+i)) + " lacks the GCA signature"
		}
	}
	return r, ""
}
