package ref

import (
	"bytes"
	"math"
	"math/big"
	"sort"
)

// Model is the reference model of one GCA server, written from the statements
// of properties C01-C07 (not from the code). All window and capacity
// comparisons are done in int64 / big.Int.

const (
	WindowSlots = 4032
	WeekSlots   = 2016
	HalfWidth   = 432
	CapacityPct = 135
)

// SlotState is the set of distinct valid reports received for one slot, kept
// as the first one plus a banned flag (all the outcome function needs).
type SlotState struct {
	Has    bool
	First  Report
	Banned bool
}

// Value is the published power value of the slot.
func (s SlotState) Value() uint64 {
	if !s.Has {
		return 0
	}
	if s.Banned {
		return 1
	}
	return s.First.Power
}

type Model struct {
	Temp       [32]byte
	Registered bool
	GCA        [32]byte

	Devices map[uint32]Auth
	Bans    map[uint32]bool
	Offset  uint32
	Live    map[uint32]*[WindowSlots]SlotState
	Archive []ModelWeek

	AuthLog []byte // expected content of equipment-authorizations.dat
}

// ModelWeek is an archived week as the model expects it: per device key the
// 2016 power values. Impact rates are observed (random in the test build) and
// are attached by the harness from the snapshot taken before the rotation.
type ModelWeek struct {
	Offset  uint32
	Devices map[[32]byte]*[WeekSlots]uint64
	Impact  map[[32]byte]*[WeekSlots]float64
}

func NewModel(temp [32]byte) *Model {
	return &Model{
		Temp:    temp,
		Devices: map[uint32]Auth{},
		Bans:    map[uint32]bool{},
		Live:    map[uint32]*[WindowSlots]SlotState{},
	}
}

// OverCapacity says whether a power value must ban the slot: non-negative as
// a signed 64-bit number and above 135% of the capacity.
func OverCapacity(power, capacity uint64) bool {
	if int64(power) < 0 {
		return false
	}
	l := new(big.Int).Mul(new(big.Int).SetUint64(power), big.NewInt(100))
	r := new(big.Int).Mul(new(big.Int).SetUint64(capacity), big.NewInt(CapacityPct))
	return l.Cmp(r) > 0
}

// CapacityLimit returns the largest power that does not ban: floor(cap*135/100).
func CapacityLimit(capacity uint64) *big.Int {
	r := new(big.Int).Mul(new(big.Int).SetUint64(capacity), big.NewInt(CapacityPct))
	return r.Div(r, big.NewInt(100))
}

// Reason why a datagram is not acceptable ("" = acceptable).
type Verdict struct {
	Accept bool
	Reason string
	Report Report
}

// Judge decides a datagram as the UDP listener must treat it: the listener
// reads at most 80 bytes, so longer datagrams are judged by their leading 80
// bytes and shorter ones are dropped.
func (m *Model) Judge(datagram []byte, now uint32, verify func(pub [32]byte, msg []byte, sig [64]byte) bool) Verdict {
	if len(datagram) < 80 {
		return Verdict{Reason: "short"}
	}
	r, _ := DecodeReport(datagram[:80])
	v := Verdict{Report: r}
	if m.Bans[r.ShortID] {
		v.Reason = "banned-device"
		return v
	}
	a, ok := m.Devices[r.ShortID]
	if !ok {
		v.Reason = "unknown-device"
		return v
	}
	if !verify(a.PublicKey, r.SigningBytes(), r.Sig) {
		v.Reason = "bad-signature"
		return v
	}
	d := int64(r.Timeslot) - int64(now)
	if d < -HalfWidth || d > HalfWidth {
		v.Reason = "clock-range"
		return v
	}
	if int64(r.Timeslot) < int64(m.Offset) || int64(r.Timeslot) >= int64(m.Offset)+WindowSlots {
		v.Reason = "outside-window"
		return v
	}
	if r.Power == 0 || r.Power == 1 {
		v.Reason = "sentinel-power"
		return v
	}
	v.Accept = true
	return v
}

// Effect of an acceptable report on its slot.
type Effect int

const (
	EffNone   Effect = iota // replay of the identical report, or slot already banned
	EffStored               // first report, within capacity
	EffBanned               // slot becomes banned (second distinct report or over capacity)
)

// Apply integrates an acceptable report. logged says whether the report must
// have been appended to the persisted report log.
func (m *Model) Apply(r Report) (eff Effect, logged bool) {
	slots := m.Live[r.ShortID]
	i := r.Timeslot - m.Offset
	s := &slots[i]
	if s.Banned {
		return EffNone, false
	}
	if s.Has && bytes.Equal(s.First.Encode(), r.Encode()) {
		return EffNone, false
	}
	if !s.Has {
		s.Has = true
		s.First = r
		if OverCapacity(r.Power, m.Devices[r.ShortID].Capacity) {
			s.Banned = true
			return EffBanned, true
		}
		return EffStored, true
	}
	s.Banned = true
	return EffBanned, true
}

// AuthOutcome of an authorization that carries a valid GCA signature.
type AuthOutcome int

const (
	AuthRefusedBanned AuthOutcome = iota
	AuthDuplicate
	AuthNew
	AuthConflict
)

// Authorize applies an authorization whose signature has been verified
// against the registered GCA key by the caller.
func (m *Model) Authorize(a Auth) AuthOutcome {
	if m.Bans[a.ShortID] {
		return AuthRefusedBanned
	}
	cur, ok := m.Devices[a.ShortID]
	if ok && bytes.Equal(cur.Encode(), a.Encode()) {
		return AuthDuplicate
	}
	m.AuthLog = append(m.AuthLog, a.Encode()...)
	if !ok {
		m.Devices[a.ShortID] = a
		m.Live[a.ShortID] = new([WindowSlots]SlotState)
		return AuthNew
	}
	delete(m.Devices, a.ShortID)
	delete(m.Live, a.ShortID)
	m.Bans[a.ShortID] = true
	return AuthConflict
}

// Rotate archives the first live week and shifts the window by one week.
func (m *Model) Rotate() ModelWeek {
	w := ModelWeek{Offset: m.Offset, Devices: map[[32]byte]*[WeekSlots]uint64{}, Impact: map[[32]byte]*[WeekSlots]float64{}}
	for id, slots := range m.Live {
		var p [WeekSlots]uint64
		for i := 0; i < WeekSlots; i++ {
			p[i] = slots[i].Value()
		}
		w.Devices[m.Devices[id].PublicKey] = &p
		var n [WindowSlots]SlotState
		copy(n[:WeekSlots], slots[WeekSlots:])
		*slots = n
	}
	m.Archive = append(m.Archive, w)
	m.Offset += WeekSlots
	return w
}

// LiveWeek returns the model's values for a live week (x = 0 first half, 1 second half).
func (m *Model) LiveWeek(x int) map[[32]byte]*[WeekSlots]uint64 {
	out := map[[32]byte]*[WeekSlots]uint64{}
	for id, slots := range m.Live {
		var p [WeekSlots]uint64
		for i := 0; i < WeekSlots; i++ {
			p[i] = slots[x*WeekSlots+i].Value()
		}
		out[m.Devices[id].PublicKey] = &p
	}
	return out
}

// DeviceIDs returns the authorized ids in ascending order.
func (m *Model) DeviceIDs() []uint32 {
	var ids []uint32
	for id := range m.Devices {
		ids = append(ids, id)
	}
	sort.Slice(ids, func(i, j int) bool { return ids[i] < ids[j] })
	return ids
}

// BanIDs returns the banned ids in ascending order.
func (m *Model) BanIDs() []uint32 {
	var ids []uint32
	for id := range m.Bans {
		ids = append(ids, id)
	}
	sort.Slice(ids, func(i, j int) bool { return ids[i] < ids[j] })
	return ids
}

// Clone deep-copies the model.
func (m *Model) Clone() *Model {
	c := &Model{Temp: m.Temp, Registered: m.Registered, GCA: m.GCA, Offset: m.Offset,
		Devices: map[uint32]Auth{}, Bans: map[uint32]bool{}, Live: map[uint32]*[WindowSlots]SlotState{}}
	for k, v := range m.Devices {
		c.Devices[k] = v
	}
	for k, v := range m.Bans {
		c.Bans[k] = v
	}
	for k, v := range m.Live {
		x := *v
		c.Live[k] = &x
	}
	for _, w := range m.Archive {
		nw := ModelWeek{Offset: w.Offset, Devices: map[[32]byte]*[WeekSlots]uint64{}, Impact: map[[32]byte]*[WeekSlots]float64{}}
		for k, v := range w.Devices {
			x := *v
			nw.Devices[k] = &x
		}
		for k, v := range w.Impact {
			x := *v
			nw.Impact[k] = &x
		}
		c.Archive = append(c.Archive, nw)
	}
	c.AuthLog = append([]byte(nil), m.AuthLog...)
	return c
}

// FloatBitsEqual compares floats by representation (so -0 != +0, NaN == NaN).
func FloatBitsEqual(a, b float64) bool { return math.Float64bits(a) == math.Float64bits(b) }
