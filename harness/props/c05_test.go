//go:build test && verif

package props

// C05 - a crash at any point leaves a server that starts and keeps the durable
// prefix (fault enumeration, process-crash model: completed system calls
// survive).
//
// (a) crash images: while a generated history runs, a callback on every
//     verif crash point (they sit inside the persistence code, before and
//     after every write) copies the data directory. The server flushes nothing
//     at shutdown, so such a copy is exactly what a process crash at that
//     instant leaves behind. Every image is then started and compared with the
//     reference model before resp. after the operation in progress.
// (b) constructed images: "file present but empty" for every file that is
//     written create-then-write or truncate-then-write, at the only moments
//     this state can exist.
// (c) real SIGKILL of a child process that executes a generated operation
//     list, at a drawn instant; the recovered state must equal the model after
//     the completed operations, with the operation in flight applied or not.

import (
	"bufio"
	"encoding/json"
	"fmt"
	"os"
	"os/exec"
	"path/filepath"
	"strings"
	"syscall"
	"testing"
	"time"

	"github.com/glowlabs-org/gca-backend/glow"
	"github.com/glowlabs-org/gca-backend/server"
	"pgregory.net/rapid"

	"verif/harness/ev"
	"verif/harness/ref"
	"verif/harness/world"
)

type crashImage struct {
	dir   string
	point string
	op    string
	pre   *ref.Model
	post  *ref.Model // filled in when the operation has completed
	// for a restart (which re-appends the live reports while loading and may
	// then rotate once) the name of the point does not tell on which side of
	// the rotation the image lies; the callback records it
	side string // "", "pre" or "post"
}

// expected returns the model an image must recover to.
func (ci *crashImage) expected() *ref.Model {
	switch ci.side {
	case "pre":
		return ci.pre
	case "post":
		return ci.post
	}
	switch {
	case strings.HasSuffix(ci.point, ":after-write"), strings.HasSuffix(ci.point, ":after"), strings.HasSuffix(ci.point, ":after-save"), strings.HasSuffix(ci.point, ":after-shift"), strings.HasSuffix(ci.point, ":written"):
		return ci.post
	default:
		return ci.pre
	}
}

// checkImage starts a server on the image and compares it with the model.
func checkImage(t TB, prop string, temp ref.Key, dir string, want *ref.Model, what string) {
	s := &sess{t: t, prop: prop, temp: temp, M: want.Clone(), dir: dir, firstSeen: map[uint32][]byte{}}
	s.now = want.Offset
	glow.SetCurrentTimeslot(s.now)
	s.logf("image: %s", what)
	defer func() {
		if s.S != nil && !s.closed {
			if a, b := s.S.S.VerifTryLocks(); a && b {
				s.S.Close()
			} else {
				s.S.Abandon()
			}
		}
		os.RemoveAll(dir)
	}()
	s.start() // fails the test if the server does not start or differs from the model
	if !want.Registered {
		// an unregistered image must accept its GCA's registration
		gca := keyFor("gca")
		st, body, err := s.S.Register(gca.Pub, temp)
		if err != nil || st != 200 {
			s.fail("the recovered server cannot be registered by its GCA: %v %d %s", err, st, body)
		}
		s.M.Registered, s.M.GCA = true, gca.Pub
	}
	s.crossCheckFilesAndEquipment()
	s.close() // runs CheckInvariants
}

func TestC05CrashImages(t *testing.T) {
	ev.Rule("C05(a): per case a generated history (first start, registration, authorizations incl. duplicates and conflicts, reports incl. equivocation, rotations) runs while a callback on every crash point inside the persistence code copies the data directory (one image per persistence site per operation = every instant at which the disk changes); every image is started; oracle: start succeeds, the recovered state equals the reference model before the operation (points before a write) resp. after it (points after a write), an unregistered image accepts a registration, CheckInvariants passes, data files equal the model; non-trivial = image taken inside an operation whose recovered state is non-empty; distinct by (history prefix, crash point)")
	rapid.Check(t, func(t *rapid.T) {
		server.VerifSetStepping(true)
		temp, gca := keyFor("temp"), keyFor("gca")
		s := newSess(t, "C05", temp, 0)
		defer s.cleanup()
		var images []*crashImage
		var cur []*crashImage
		curOp := "first start"
		rotSaved := false
		var pre *ref.Model
		server.VerifOn("*", func(g *server.GCAServer, name string) {
			if !strings.HasPrefix(name, "crash:") || g.BaseDir() != s.dir {
				return
			}
			ci := &crashImage{dir: world.CopyDir(s.dir), point: name, op: curOp, pre: pre}
			if strings.HasPrefix(curOp, "restart") {
				if name == "crash:rotate:after-save" {
					rotSaved = true
				}
				ci.side = "pre"
				if rotSaved {
					ci.side = "post"
				}
			}
			images = append(images, ci)
			cur = append(cur, ci)
		})
		defer func() {
			for _, ci := range images {
				os.RemoveAll(ci.dir)
			}
		}()
		begin := func(op string) {
			curOp = op
			rotSaved = false
			pre = s.M.Clone()
			cur = nil
		}
		end := func() {
			post := s.M.Clone()
			for _, ci := range cur {
				ci.post = post
			}
			cur = nil
		}
		begin("first start")
		s.start()
		end()
		begin("register")
		s.register(gca, temp, true)
		end()
		keys := map[uint32]ref.Key{}
		next := uint32(0)
		t.Repeat(map[string]func(*rapid.T){
			"registerAgain": func(t *rapid.T) {
				// a repeated registration (the same key again, or another one, both
				// signed by the temporary key) changes nothing - and must not open a
				// window in which the key file is gone
				k := gca
				what := "register again (same key)"
				if rapid.Bool().Draw(t, "otherKey") {
					k = keyFor("c05-other-gca")
					what = "register again (other key)"
				}
				begin(what)
				s.register(k, temp, false)
				end()
			},
			"authorize": func(t *rapid.T) {
				live := s.M.DeviceIDs()
				kind := rapid.SampledFrom([]string{"new", "new", "duplicate", "conflict"}).Draw(t, "kind")
				if len(live) == 0 {
					kind = "new"
				}
				var a ref.Auth
				switch kind {
				case "new":
					next++
					keys[next] = keyFor(fmt.Sprintf("c05-dev-%d", next))
					a = ref.Auth{ShortID: next, PublicKey: keys[next].Pub, Capacity: rapid.SampledFrom([]uint64{10, 1 << 30}).Draw(t, "cap")}
				case "duplicate":
					a = s.M.Devices[rapid.SampledFrom(live).Draw(t, "id")]
				default:
					a = s.M.Devices[rapid.SampledFrom(live).Draw(t, "id")]
					if rapid.IntRange(0, 2).Draw(t, "conflictBySignatureOnly") != 0 {
						a.Debt++
					}
				}
				cur := a.Sig
				a.Sig = ref.Sign(gca, a.SigningBytes())
				if kind == "conflict" && a.Sig == cur {
					// same content: the conflict is a second valid signature (another nonce)
					if sig, ok := ref.SignWithNonce(gca, a.SigningBytes(), []byte{byte(next), 7, 7, 7}); ok && sig != cur {
						a.Sig = sig
					} else {
						a.Debt++
						a.Sig = ref.Sign(gca, a.SigningBytes())
					}
				}
				begin("authorize " + kind)
				s.authorize(a, kind)
				end()
			},
			"report": func(t *rapid.T) {
				live := s.M.DeviceIDs()
				if len(live) == 0 {
					t.Skip("no device")
				}
				id := rapid.SampledFrom(live).Draw(t, "id")
				slot := s.now + uint32(rapid.IntRange(0, 5).Draw(t, "slot"))
				p := rapid.SampledFrom([]uint64{5, 6, 1000, 1 << 63}).Draw(t, "power")
				begin("report")
				s.datagram(ref.SignedReport(keys[id], id, slot, p).Encode(), "report")
				end()
			},
			"clock": func(t *rapid.T) {
				s.setClock(s.now + uint32(rapid.IntRange(1, 400).Draw(t, "adv")))
			},
			"restart": func(t *rapid.T) {
				// a restart, in a third of the cases with a clock that makes the
				// start-up loop rotate exactly once (crash points fire inside it)
				now := s.now
				what := "restart"
				if rapid.IntRange(0, 2).Draw(t, "catchUp") == 0 {
					now = s.M.Offset + 4000 + uint32(rapid.IntRange(0, 2015).Draw(t, "phase"))
					what = "restart with one catch-up rotation"
				}
				s.close()
				begin(what)
				s.now = now
				glow.SetCurrentTimeslot(now)
				s.start()
				end()
				s.setClock(s.M.Offset + uint32(rapid.IntRange(0, 1500).Draw(t, "after")))
			},
			"rotate": func(t *rapid.T) {
				if rapid.IntRange(0, 2).Draw(t, "doRotate") != 0 {
					t.Skip("not now")
				}
				s.setClock(s.M.Offset + 3201 + uint32(rapid.IntRange(0, 300).Draw(t, "past")))
				begin("rotate")
				s.stepMigrate()
				end()
				s.setClock(s.M.Offset + uint32(rapid.IntRange(0, 1500).Draw(t, "after")))
			},
		})
		server.VerifOn("*", nil)
		s.close()
		hist := append([]string(nil), s.hist...)
		for i, ci := range images {
			want := ci.expected()
			if want == nil {
				t.Fatalf("C05: harness: image %d at %s has no expected model", i, ci.point)
			}
			what := fmt.Sprintf("crash at %s during %q (image %d of %d)", ci.point, ci.op, i+1, len(images))
			lastCase(map[string]interface{}{"image": what, "history": hist})
			checkImage(&histTB{t, hist}, "C05", temp, ci.dir, want, what)
			ev.Eval(1)
			ev.Label("c05:point-" + ci.point)
			if len(want.Devices) > 0 || len(want.Bans) > 0 || want.Registered {
				ev.NonTrivial(fmt.Sprintf("c05|%s|%s|%d|%d|%d", ci.point, ci.op, len(want.Devices), len(want.Bans), want.Offset))
				if i%7 == 3 {
					ev.Sample("c05:image", map[string]interface{}{"crash_point": ci.point, "operation": ci.op, "recovered_devices": len(want.Devices), "recovered_bans": len(want.Bans), "recovered_offset": want.Offset})
				}
			}
		}
	})
}

// histTB prefixes failures of image checks with the history that produced the image.
type histTB struct {
	t    TB
	hist []string
}

func (h *histTB) Fatalf(format string, a ...interface{}) {
	tail := h.hist
	if len(tail) > 25 {
		tail = tail[len(tail)-25:]
	}
	h.t.Fatalf("%s\nhistory that produced the image (tail):\n  %s", fmt.Sprintf(format, a...), strings.Join(tail, "\n  "))
}
func (h *histTB) Logf(format string, a ...interface{}) { h.t.Logf(format, a...) }
func (h *histTB) Helper()                              {}

func TestC05EmptyFileImages(t *testing.T) {
	ev.Rule("C05(b): constructed images - for each file the server writes create-then-write or truncate-then-write (server.keys, gcaPubKey.dat) and each file it creates empty at first start (equipment-authorizations.dat, allDeviceStats.dat, equipment-reports.dat, server.log), the state 'file present but empty' at the only moments it can exist (first start; during the one registration), in every combination; oracle: the server starts, is unregistered, accepts its GCA's registration and then authorizations and reports")
	temp, gca := keyFor("temp"), keyFor("gca")
	files := []string{"server.keys", "gcaPubKey.dat", "equipment-authorizations.dat", "allDeviceStats.dat", "equipment-reports.dat", "server.log"}
	n := 0
	for mask := 1; mask < 1<<len(files); mask++ {
		// server.keys is created before every other file; gcaPubKey.dat is written only by a registration, when all first-start files exist
		dir := world.NewServerDir(temp.Pub)
		var present []string
		for i, f := range files {
			if mask&(1<<i) != 0 {
				os.WriteFile(filepath.Join(dir, f), nil, 0644)
				present = append(present, f)
			}
		}
		what := fmt.Sprintf("empty files present: %v", present)
		lastCase(what)
		m := ref.NewModel(temp.Pub)
		func() {
			server.VerifSetStepping(true)
			s := &sess{t: t, prop: "C05", temp: temp, M: m, dir: dir, firstSeen: map[uint32][]byte{}}
			glow.SetCurrentTimeslot(0)
			defer s.cleanup()
			s.logf("image: %s", what)
			s.start()
			s.register(gca, temp, true)
			k := keyFor("c05b-dev")
			a := ref.Auth{ShortID: 1, PublicKey: k.Pub, Capacity: 100}
			a.Sig = ref.Sign(gca, a.SigningBytes())
			if s.authorize(a, "new") != ref.AuthNew {
				s.fail("authorization after recovery not accepted")
			}
			if v := s.datagram(ref.SignedReport(k, 1, 3, 50).Encode(), "report"); !v.Accept {
				s.fail("harness: report not acceptable")
			}
			s.restart(0)
			s.crossCheckFilesAndEquipment()
			s.close()
		}()
		n++
		ev.Eval(1)
		ev.NonTrivial("c05|empty|" + what)
		if n%9 == 1 {
			ev.Sample("c05:empty-file-image", what)
		}
	}
	ev.Exhaustive("c05: all 63 combinations of present-but-empty files")
}

// ---- (c) real SIGKILL --------------------------------------------------------

type c05Op struct {
	Kind  string   `json:"kind"`
	Auth  ref.Auth `json:"auth,omitempty"`
	Raw   []byte   `json:"raw,omitempty"`
	Clock uint32   `json:"clock,omitempty"`
}

type c05Plan struct {
	Dir  string  `json:"dir"`
	Temp ref.Key `json:"temp"`
	GCA  ref.Key `json:"gca"`
	Ops  []c05Op `json:"ops"`
}

// TestC05Child is the victim process: it executes the plan sequentially and
// journals "start i" / "done i" with single writes. It does nothing unless
// VERIF_C05_PLAN is set.
func TestC05Child(t *testing.T) {
	planFile := os.Getenv("VERIF_C05_PLAN")
	if planFile == "" {
		return
	}
	b, err := os.ReadFile(planFile)
	if err != nil {
		os.Exit(3)
	}
	var plan c05Plan
	if err := json.Unmarshal(b, &plan); err != nil {
		os.Exit(3)
	}
	j, err := os.OpenFile(planFile+".journal", os.O_CREATE|os.O_WRONLY|os.O_APPEND, 0644)
	if err != nil {
		os.Exit(3)
	}
	server.VerifSetStepping(false)
	glow.SetCurrentTimeslot(0)
	j.WriteString("boot\n")
	srv, err := world.StartServer(plan.Dir)
	if err != nil {
		j.WriteString("error " + err.Error() + "\n")
		os.Exit(4)
	}
	j.WriteString("up\n")
	for i, op := range plan.Ops {
		j.WriteString(fmt.Sprintf("start %d\n", i))
		switch op.Kind {
		case "register":
			srv.Register(plan.GCA.Pub, plan.Temp)
		case "authorize":
			srv.Authorize(op.Auth)
		case "report":
			srv.SendUDP(op.Raw)
		case "clock":
			glow.SetCurrentTimeslot(op.Clock)
		case "rotate":
			off := srv.VerifSnapshot().Offset
			glow.SetCurrentTimeslot(off + 3300)
			world.WaitActive(5*time.Second, 2*time.Millisecond, func() bool { return srv.VerifSnapshot().Offset != off })
			glow.SetCurrentTimeslot(srv.VerifSnapshot().Offset + 100)
		}
		j.WriteString(fmt.Sprintf("done %d\n", i))
	}
	j.WriteString("finished\n")
	if os.Getenv("VERIF_C05_EXIT") == "1" {
		os.Exit(0)
	}
	// stay alive until killed (or give up after a while)
	time.Sleep(5 * time.Second)
	os.Exit(0)
}

func TestC05Sigkill(t *testing.T) {
	ev.Rule("C05(c): a generated operation list (registration, authorizations incl. conflicts, reports, clock moves, rotations) is executed by a child process that journals start/done per operation with single writes; the parent sends SIGKILL after a drawn delay (0-400 ms, i.e. also during first start), starts a server on the directory and compares; oracle: start succeeds and the recovered state equals the reference model after the k completed operations, with the operation in flight either applied or not (never partially); non-trivial = kill while operations were in progress with a non-empty recovered state; distinct by (plan, kill point)")
	bin := os.Getenv("VERIF_BIN")
	if bin == "" {
		bin = os.Args[0]
	}
	rapid.Check(t, func(t *rapid.T) {
		temp, gca := keyFor("temp"), keyFor("gca")
		dir := world.NewServerDir(temp.Pub)
		defer os.RemoveAll(dir)
		plan := c05Plan{Dir: dir, Temp: temp, GCA: gca}
		plan.Ops = append(plan.Ops, c05Op{Kind: "register"})
		// the parent tracks what the model says after each prefix
		m := ref.NewModel(temp.Pub)
		models := []*ref.Model{m.Clone()}
		m.Registered, m.GCA = true, gca.Pub
		models = append(models, m.Clone())
		keys := map[uint32]ref.Key{}
		now := uint32(0)
		next := uint32(0)
		for i, n := 0, rapid.IntRange(5, 60).Draw(t, "ops"); i < n; i++ {
			live := m.DeviceIDs()
			kind := rapid.SampledFrom([]string{"authorize", "report", "report", "report", "clock", "rotate"}).Draw(t, "kind")
			if len(live) == 0 {
				kind = "authorize"
			}
			switch kind {
			case "authorize":
				var a ref.Auth
				if len(live) > 0 && rapid.IntRange(0, 4).Draw(t, "conflict") == 0 {
					a = m.Devices[rapid.SampledFrom(live).Draw(t, "id")]
					a.ProtocolFee++
				} else {
					next++
					keys[next] = keyFor(fmt.Sprintf("c05k-dev-%d", next))
					a = ref.Auth{ShortID: next, PublicKey: keys[next].Pub, Capacity: 1 << 30}
				}
				a.Sig = ref.Sign(gca, a.SigningBytes())
				plan.Ops = append(plan.Ops, c05Op{Kind: "authorize", Auth: a})
				m.Authorize(a)
			case "report":
				id := rapid.SampledFrom(live).Draw(t, "id")
				r := ref.SignedReport(keys[id], id, now+uint32(rapid.IntRange(0, 9).Draw(t, "slot")), uint64(50+rapid.IntRange(0, 2).Draw(t, "p")))
				plan.Ops = append(plan.Ops, c05Op{Kind: "report", Raw: r.Encode()})
				if v := m.Judge(r.Encode(), now, ref.Verify); v.Accept {
					m.Apply(r)
				}
			case "clock":
				now += uint32(rapid.IntRange(1, 300).Draw(t, "adv"))
				if int64(now)-int64(m.Offset) > 3100 {
					now = m.Offset + 3100
				}
				plan.Ops = append(plan.Ops, c05Op{Kind: "clock", Clock: now})
			case "rotate":
				if rapid.IntRange(0, 3).Draw(t, "really") != 0 {
					continue
				}
				plan.Ops = append(plan.Ops, c05Op{Kind: "rotate"})
				m.Rotate()
				now = m.Offset + 100
			}
			models = append(models, m.Clone())
		}
		planFile := filepath.Join(dir, "..", filepath.Base(dir)+".plan.json")
		pb, _ := json.Marshal(plan)
		os.WriteFile(planFile, pb, 0644)
		defer os.Remove(planFile)
		defer os.Remove(planFile + ".journal")
		// kill point: either a pure delay, or a drawn journal line plus a few hundred microseconds
		delay := time.Duration(rapid.IntRange(0, 400).Draw(t, "killAfterMs")) * time.Millisecond
		target := ""
		if rapid.IntRange(0, 4).Draw(t, "killMode") != 0 {
			k := rapid.IntRange(-2, len(plan.Ops)-1).Draw(t, "killAtOp")
			switch {
			case k == -2:
				target = "boot"
			case k == -1:
				target = "up"
			default:
				target = fmt.Sprintf("start %d", k)
			}
			delay = time.Duration(rapid.IntRange(0, 1500).Draw(t, "killExtraMicros")) * time.Microsecond
		}
		cmd := exec.Command(bin, "-test.run", "^TestC05Child$", "-test.timeout", "60s")
		cmd.Env = append(os.Environ(), "VERIF_C05_PLAN="+planFile, "VERIF_EV_OUT=", "VERIF_JOURNAL=", "VERIF_LASTCASE=")
		cmd.Stdout, cmd.Stderr = nil, nil
		if err := cmd.Start(); err != nil {
			t.Fatalf("C05: cannot start the child process: %v", err)
		}
		if target != "" {
			deadline := time.Now().Add(8 * time.Second)
			for time.Now().Before(deadline) {
				if b, err := os.ReadFile(planFile + ".journal"); err == nil && strings.Contains(string(b), target+"\n") {
					break
				}
				time.Sleep(100 * time.Microsecond)
			}
		}
		time.Sleep(delay)
		cmd.Process.Signal(syscall.SIGKILL)
		cmd.Wait()
		// read the journal
		done, started := -1, -1
		up := false
		if f, err := os.Open(planFile + ".journal"); err == nil {
			sc := bufio.NewScanner(f)
			for sc.Scan() {
				var k int
				line := sc.Text()
				if line == "up" {
					up = true
				}
				if strings.HasPrefix(line, "error") {
					f.Close()
					t.Fatalf("C05: the child could not start its server: %s", line)
				}
				if n, _ := fmt.Sscanf(line, "start %d", &k); n == 1 {
					started = k
				}
				if n, _ := fmt.Sscanf(line, "done %d", &k); n == 1 {
					done = k
				}
			}
			f.Close()
		}
		ev.Eval(1)
		// candidates: model after done+1 operations, or with the in-flight operation applied
		cands := []*ref.Model{models[done+1]}
		if started > done && started+1 < len(models) {
			cands = append(cands, models[started+1])
		}
		what := fmt.Sprintf("SIGKILL at journal line %q + %v: server up=%v, %d of %d operations done, operation %d in flight", target, delay, up, done+1, len(plan.Ops), started)
		lastCase(map[string]interface{}{"kill": what, "ops": len(plan.Ops)})
		var firstErr string
		matched := false
		for ci, want := range cands {
			img := world.CopyDir(dir)
			rec := &recTB{}
			func() {
				defer func() {
					if r := recover(); r != nil {
						if _, ok := r.(recAbort); !ok {
							panic(r)
						}
					}
				}()
				server.VerifSetStepping(true)
				checkImage(rec, "C05", temp, img, want, fmt.Sprintf("%s (candidate %d)", what, ci))
			}()
			world.StopAllLeaked()
			server.VerifPanics()
			if rec.msg == "" {
				matched = true
				break
			}
			if firstErr == "" {
				firstErr = rec.msg
			}
		}
		if !matched {
			t.Fatalf("C05: %s: the recovered server equals neither the state after the completed operations nor that state plus the operation in flight.\nfirst mismatch: %s", what, firstErr)
		}
		if done >= 0 && started > done {
			ev.Label("c05:killed-with-operation-in-flight")
		}
		if !up {
			ev.Label("c05:killed-during-first-start")
		}
		if done >= 1 {
			ev.NonTrivial(fmt.Sprintf("c05|kill|%d|%d|%d", len(plan.Ops), done, started))
			ev.Label("c05:kill-nontrivial")
			ev.Sample("c05:sigkill", map[string]interface{}{"kill": what})
		}
	})
}

type recAbort struct{}

// recTB records the first failure instead of failing the test (used to try
// several candidate models).
type recTB struct{ msg string }

func (r *recTB) Fatalf(format string, a ...interface{}) {
	if r.msg == "" {
		r.msg = fmt.Sprintf(format, a...)
	}
	panic(recAbort{})
}
func (r *recTB) Logf(string, ...interface{}) {}
func (r *recTB) Helper()                     {}

// ---- (d) crash at every write system call -------------------------------------

// c05BuildPlan draws an operation list and the model after every prefix.
func c05BuildPlan(t *rapid.T, dir string, temp, gca ref.Key, maxOps int) (c05Plan, []*ref.Model) {
	plan := c05Plan{Dir: dir, Temp: temp, GCA: gca}
	plan.Ops = append(plan.Ops, c05Op{Kind: "register"})
	m := ref.NewModel(temp.Pub)
	models := []*ref.Model{m.Clone()}
	m.Registered, m.GCA = true, gca.Pub
	models = append(models, m.Clone())
	keys := map[uint32]ref.Key{}
	now := uint32(0)
	next := uint32(0)
	for i, n := 0, rapid.IntRange(3, maxOps).Draw(t, "ops"); i < n; i++ {
		live := m.DeviceIDs()
		kind := rapid.SampledFrom([]string{"authorize", "report", "report", "report", "clock", "rotate"}).Draw(t, "kind")
		if len(live) == 0 {
			kind = "authorize"
		}
		switch kind {
		case "authorize":
			var a ref.Auth
			if len(live) > 0 && rapid.IntRange(0, 4).Draw(t, "conflict") == 0 {
				a = m.Devices[rapid.SampledFrom(live).Draw(t, "id")]
				a.ProtocolFee++
			} else {
				next++
				keys[next] = keyFor(fmt.Sprintf("c05k-dev-%d", next))
				a = ref.Auth{ShortID: next, PublicKey: keys[next].Pub, Capacity: 1 << 30}
			}
			a.Sig = ref.Sign(gca, a.SigningBytes())
			plan.Ops = append(plan.Ops, c05Op{Kind: "authorize", Auth: a})
			m.Authorize(a)
		case "report":
			id := rapid.SampledFrom(live).Draw(t, "id")
			r := ref.SignedReport(keys[id], id, now+uint32(rapid.IntRange(0, 9).Draw(t, "slot")), uint64(50+rapid.IntRange(0, 2).Draw(t, "p")))
			plan.Ops = append(plan.Ops, c05Op{Kind: "report", Raw: r.Encode()})
			if v := m.Judge(r.Encode(), now, ref.Verify); v.Accept {
				m.Apply(r)
			}
		case "clock":
			now += uint32(rapid.IntRange(1, 300).Draw(t, "adv"))
			if int64(now)-int64(m.Offset) > 3100 {
				now = m.Offset + 3100
			}
			plan.Ops = append(plan.Ops, c05Op{Kind: "clock", Clock: now})
		case "rotate":
			if rapid.IntRange(0, 3).Draw(t, "really") != 0 {
				continue
			}
			plan.Ops = append(plan.Ops, c05Op{Kind: "rotate"})
			m.Rotate()
			now = m.Offset + 100
		}
		models = append(models, m.Clone())
	}
	return plan, models
}

func readJournal(path string) (up bool, done, started int, errLine string) {
	done, started = -1, -1
	f, err := os.Open(path)
	if err != nil {
		return
	}
	defer f.Close()
	sc := bufio.NewScanner(f)
	for sc.Scan() {
		var k int
		line := sc.Text()
		if line == "up" {
			up = true
		}
		if strings.HasPrefix(line, "error") {
			errLine = line
		}
		if n, _ := fmt.Sscanf(line, "start %d", &k); n == 1 {
			started = k
		}
		if n, _ := fmt.Sscanf(line, "done %d", &k); n == 1 {
			done = k
		}
	}
	return
}

var c05DataFiles = []string{"server.keys", "gcaPubKey.dat", "equipment-authorizations.dat", "equipment-reports.dat", "allDeviceStats.dat"}

// TestC05SyscallCrash kills the victim process at the entry of its k-th
// write(2) on any data file, for every k, using strace's fault injection
// (-e inject=write:signal=KILL:when=k with -P path filters). This is the
// process-crash model at system-call granularity: it also exposes states that
// lie between two writes of one operation.
func TestC05SyscallCrash(t *testing.T) {
	ev.Rule("C05(d): a generated plan is executed by a child process under strace, which delivers SIGKILL at the entry of the k-th write(2) to any of the five data files, for EVERY k of the plan (all writes enumerated; plans are sampled); oracle as in (c): the server starts on the directory and the recovered state equals the model after the completed operations, with the one in flight applied or not; non-trivial = kill inside an operation with a non-empty recovered state")
	if _, err := exec.LookPath("strace"); err != nil {
		ev.Set("c05_syscall_crash", "skipped: strace not available")
		t.Skip("strace not available")
	}
	bin := os.Getenv("VERIF_BIN")
	if bin == "" {
		bin = os.Args[0]
	}
	rapid.Check(t, func(t *rapid.T) {
		temp, gca := keyFor("temp"), keyFor("gca")
		tplDir := world.NewServerDir(temp.Pub)
		defer os.RemoveAll(tplDir)
		plan, models := c05BuildPlan(t, tplDir, temp, gca, pick(10, 30))
		runChild := func(dir string, k int, traceOut string) {
			p := plan
			p.Dir = dir
			planFile := dir + ".plan.json"
			pb, _ := json.Marshal(p)
			os.WriteFile(planFile, pb, 0644)
			args := []string{"-f", "-qq", "-o", traceOut, "-e", "trace=write"}
			for _, f := range c05DataFiles {
				args = append(args, "-P", filepath.Join(dir, f))
			}
			if k > 0 {
				args = append(args, "-e", fmt.Sprintf("inject=write:signal=KILL:when=%d", k))
			}
			args = append(args, bin, "-test.run", "^TestC05Child$", "-test.timeout", "60s")
			cmd := exec.Command("strace", args...)
			cmd.Env = append(os.Environ(), "VERIF_C05_PLAN="+planFile, "VERIF_C05_EXIT=1", "VERIF_EV_OUT=", "VERIF_JOURNAL=", "VERIF_LASTCASE=")
			cmd.Run()
		}
		// count the writes of the whole plan
		cdir := world.NewServerDir(temp.Pub)
		trace := cdir + ".trace"
		runChild(cdir, 0, trace)
		tb, _ := os.ReadFile(trace)
		total := strings.Count(string(tb), "write(")
		up, done, _, errLine := readJournal(cdir + ".plan.json.journal")
		os.RemoveAll(cdir)
		os.Remove(trace)
		os.Remove(cdir + ".plan.json")
		os.Remove(cdir + ".plan.json.journal")
		if errLine != "" || !up || done != len(plan.Ops)-1 {
			if total == 0 {
				ev.Set("c05_syscall_crash", "skipped: ptrace/strace could not trace the child")
				t.Skip("strace could not trace the child")
			}
			t.Fatalf("C05: the untouched child run did not complete: up=%v done=%d of %d %s", up, done+1, len(plan.Ops), errLine)
		}
		if total == 0 {
			ev.Set("c05_syscall_crash", "skipped: strace saw no write (ptrace unavailable?)")
			t.Skip("strace saw no writes")
		}
		for k := 1; k <= total; k++ {
			dir := world.NewServerDir(temp.Pub)
			runChild(dir, k, "/dev/null")
			up, done, started, errLine := readJournal(dir + ".plan.json.journal")
			os.Remove(dir + ".plan.json")
			os.Remove(dir + ".plan.json.journal")
			if errLine != "" {
				os.RemoveAll(dir)
				t.Fatalf("C05: the child could not start its server: %s", errLine)
			}
			cands := []*ref.Model{models[done+1]}
			if started > done && started+1 < len(models) {
				cands = append(cands, models[started+1])
			}
			what := fmt.Sprintf("SIGKILL at the entry of write #%d of %d on the data files: server up=%v, %d of %d operations done, operation %d in flight", k, total, up, done+1, len(plan.Ops), started)
			lastCase(map[string]interface{}{"kill": what})
			matched := false
			firstErr := ""
			for ci, want := range cands {
				img := world.CopyDir(dir)
				rec := &recTB{}
				func() {
					defer func() {
						if r := recover(); r != nil {
							if _, ok := r.(recAbort); !ok {
								panic(r)
							}
						}
					}()
					server.VerifSetStepping(true)
					checkImage(rec, "C05", temp, img, want, fmt.Sprintf("%s (candidate %d)", what, ci))
				}()
				world.StopAllLeaked()
				server.VerifPanics()
				if rec.msg == "" {
					matched = true
					break
				}
				if firstErr == "" {
					firstErr = rec.msg
				}
			}
			os.RemoveAll(dir)
			ev.Eval(1)
			if !matched {
				t.Fatalf("C05: %s: the recovered server equals neither the state after the completed operations nor that state plus the operation in flight.\nfirst mismatch: %s", what, firstErr)
			}
			if done >= 0 {
				ev.NonTrivial(fmt.Sprintf("c05|syscall|%d|%d|%d|%d", len(plan.Ops), total, k, done))
				if k%9 == 2 {
					ev.Sample("c05:syscall-crash", what)
				}
			}
			ev.Label("c05:syscall-kill")
		}
		ev.Exhaustive("c05: every write(2) of each generated plan")
	})
}
