//go:build test && verif

package props

// C13 - concurrent operation is race-free, deadlock-free and equals a
// sequential run.
//
// (1) Interleavings at critical-section boundaries: for every verif yield
// point (a place where an operation runs between two of its critical
// sections, or just before its only one) and every interfering operation of a
// menu, the outer operation is started and the interferer is executed from the
// point's callback. The same two operations are also run serially in both
// orders on identical copies of the same data directory; the interleaved
// result must equal one of the two serial results (metamorphic oracle), no
// goroutine may panic, both mutexes must be free afterwards and the server's
// own consistency check must pass.
//
// (2) Randomised many-goroutine workloads (run under the race detector by the
// driver) whose outcome is order-independent by construction; the final state
// must equal the reference model applied to the same multiset.

import (
	"bytes"
	"crypto/sha256"
	"encoding/hex"
	"encoding/json"
	"fmt"
	"os"
	"sort"
	"strings"
	"sync"
	"sync/atomic"
	"testing"
	"time"

	"github.com/glowlabs-org/gca-backend/glow"
	"github.com/glowlabs-org/gca-backend/server"
	"pgregory.net/rapid"

	"verif/harness/ev"
	"verif/harness/ref"
	"verif/harness/world"
)

// canon renders the schedule-independent part of a snapshot.
func canon(s *server.VerifSnap) string {
	var b strings.Builder
	fmt.Fprintf(&b, "gca=%x avail=%v off=%d\n", s.GCAKey[:8], s.GCAAvailable, s.Offset)
	var ids []uint32
	for id := range s.Equipment {
		ids = append(ids, id)
	}
	sort.Slice(ids, func(i, j int) bool { return ids[i] < ids[j] })
	for _, id := range ids {
		a := world.FromGlowAuth(s.Equipment[id])
		h := sha256.Sum256(a.Encode())
		sid, ok := s.ShortIDs[s.Equipment[id].PublicKey]
		fmt.Fprintf(&b, "dev %d %x idx=%v/%d impact=%v\n", id, h[:6], ok, sid, s.Impact[id] != nil)
		if im := s.Impact[id]; im != nil {
			// the values are random in the test build, the positions are not
			for i := range im {
				if im[i] != 0 {
					fmt.Fprintf(&b, " impact-at %d\n", i)
				}
			}
		}
		if r := s.Reports[id]; r != nil {
			for i := range r {
				if r[i].PowerOutput != 0 {
					fmt.Fprintf(&b, " slot %d = %d\n", i, r[i].PowerOutput)
				}
			}
		} else {
			fmt.Fprintf(&b, " no report array\n")
		}
	}
	fmt.Fprintf(&b, "bans=%v shortids=%d\n", s.Bans, len(s.ShortIDs))
	for k, w := range s.History {
		var ds []string
		for _, d := range w.Devices {
			h := sha256.New()
			for _, p := range d.PowerOutputs {
				fmt.Fprintf(h, "%d,", p)
			}
			var at []int
			for i, r := range d.ImpactRates {
				if r != 0 {
					at = append(at, i)
				}
			}
			ds = append(ds, fmt.Sprintf("%x:%x:impact-at%v", d.PublicKey[:4], h.Sum(nil)[:6], at))
		}
		sort.Strings(ds)
		fmt.Fprintf(&b, "week %d label %d %v\n", k, w.TimeslotOffset, ds)
	}
	var sv []string
	for _, x := range s.Servers {
		sv = append(sv, fmt.Sprintf("%x:%v:%s:%d", x.PublicKey[:4], x.Banned, x.Location, x.HttpPort))
	}
	sort.Strings(sv)
	fmt.Fprintf(&b, "servers %v\n", sv)
	var mg []string
	for k, m := range s.Migrations {
		mg = append(mg, fmt.Sprintf("%x->%x/%d/%d", k[:4], m.NewGCA[:4], m.NewShortID, len(m.NewServers)))
	}
	sort.Strings(mg)
	fmt.Fprintf(&b, "migrations %v\n", mg)
	return b.String()
}

type c13Ctx struct {
	t    TB
	S    *world.Server
	gca  ref.Key
	temp ref.Key
	d1   ref.Key
	d2   ref.Key
	off  uint32
	note []string
}

func (c *c13Ctx) must(st int, body []byte, err error, what string, want200 bool) {
	if err != nil {
		c.t.Fatalf("C13: %s: request failed: %v (panics: %+v)", what, err, server.VerifPanics())
	}
	if want200 && st != 200 {
		c.t.Fatalf("C13: %s: status %d %s", what, st, body)
	}
}

type c13Op struct {
	name string
	run  func(c *c13Ctx)
}

// ---- interferers -----------------------------------------------------------

func c13Interferers() []c13Op {
	return []c13Op{
		{"ban-d1", func(c *c13Ctx) {
			a := ref.Auth{ShortID: 1, PublicKey: c.d1.Pub, Capacity: 123456}
			a.Sig = ref.Sign(c.gca, a.SigningBytes())
			st, b, err := c.S.Authorize(a)
			c.must(st, b, err, "ban-d1", false)
		}},
		{"authorize-d8", func(c *c13Ctx) {
			a := ref.Auth{ShortID: 8, PublicKey: keyFor("c13-d8").Pub, Capacity: 1 << 30, Latitude: 3, Longitude: 4}
			a.Sig = ref.Sign(c.gca, a.SigningBytes())
			st, b, err := c.S.Authorize(a)
			c.must(st, b, err, "authorize-d8", true)
		}},
		{"report-d2", func(c *c13Ctx) {
			now := glow.CurrentTimeslot()
			if err := c.S.SendUDP(ref.SignedReport(c.d2, 2, now, 777).Encode()); err != nil {
				c.t.Fatalf("C13: report-d2: %v (panics %+v)", err, server.VerifPanics())
			}
		}},
		{"report-d1-equivocate", func(c *c13Ctx) {
			now := glow.CurrentTimeslot()
			c.S.SendUDP(ref.SignedReport(c.d1, 1, now-3, 500).Encode())
			c.S.SendUDP(ref.SignedReport(c.d1, 1, now-3, 501).Encode())
		}},
		{"rotate", func(c *c13Ctx) {
			snap := c.S.VerifSnapshot()
			glow.SetCurrentTimeslot(snap.Offset + 3300)
			if !world.Step(c.S.S, "migrate") {
				c.t.Fatalf("C13: interfering rotation step did not complete (panics %+v)", server.VerifPanics())
			}
		}},
		{"register-again", func(c *c13Ctx) {
			st, b, err := c.S.Register(keyFor("c13-othergca").Pub, c.temp)
			c.must(st, b, err, "register-again", false)
		}},
		{"add-server", func(c *c13Ctx) {
			as := ref.AuthServer{PublicKey: keyFor("c13-peer-x").Pub, Location: "127.0.0.1", HttpPort: 1, TcpPort: 1, UdpPort: 1}
			as.Sig = ref.Sign(c.gca, as.SigningBytes())
			st, b, err := c.S.PostJSON("/api/v1/authorized-servers", world.ToGlowServer(as))
			c.must(st, b, err, "add-server", true)
		}},
		{"ban-server", func(c *c13Ctx) {
			as := ref.AuthServer{PublicKey: keyFor("c13-peer-0").Pub, Banned: true, Location: "127.0.0.1", HttpPort: 1, TcpPort: 1, UdpPort: 1}
			as.Sig = ref.Sign(c.gca, as.SigningBytes())
			st, b, err := c.S.PostJSON("/api/v1/authorized-servers", world.ToGlowServer(as))
			c.must(st, b, err, "ban-server", true)
		}},
		{"stats-false-negatives", func(c *c13Ctx) {
			st, b, err := c.S.Get("/api/v1/all-device-stats?timeslot_offset=0&insert_false_negatives=true")
			c.must(st, b, err, "stats-false-negatives", true)
		}},
		{"impact-step", func(c *c13Ctx) {
			if !world.Step(c.S.S, "impact") {
				c.t.Fatalf("C13: interfering impact step did not complete (panics %+v)", server.VerifPanics())
			}
		}},
		{"migrate-order-d2", func(c *c13Ctx) {
			ng := keyFor("c13-newgca")
			m := ref.Migration{Equipment: c.d2.Pub, NewGCA: ng.Pub, NewShortID: 22}
			m.Sig = ref.Sign(c.gca, m.SigningBytes())
			st, b, err := c.S.PostJSON("/api/v1/equipment-migrate", world.ToGlowMigration(m))
			c.must(st, b, err, "migrate-order-d2", true)
		}},
	}
}

// ---- outer operations, one per yield point ----------------------------------

type c13Outer struct {
	point string
	name  string
	run   func(c *c13Ctx)
	// interferers that cannot run from inside this outer operation
	exclude map[string]bool
}

func c13Outers() []c13Outer {
	rotate := func(c *c13Ctx) {
		snap := c.S.VerifSnapshot()
		glow.SetCurrentTimeslot(snap.Offset + 3300)
		if !world.Step(c.S.S, "migrate") {
			c.t.Fatalf("C13: rotation step did not complete (panics %+v)", server.VerifPanics())
		}
	}
	return []c13Outer{
		{"yield:wt-index:between-sections", "impact-step", func(c *c13Ctx) {
			if !world.Step(c.S.S, "impact") {
				c.t.Fatalf("C13: impact step did not complete (panics %+v)", server.VerifPanics())
			}
		}, map[string]bool{"impact-step": true}},
		{"yield:migrate:before-lock", "rotate", rotate, map[string]bool{"rotate": true}},
		{"yield:migrate-loop:after-read", "rotate", rotate, map[string]bool{"rotate": true}},
		{"yield:sync:between-locks", "sync-d1", func(c *c13Ctx) {
			reply, refused, err := c.S.SyncDevice(1)
			if err != nil {
				c.t.Fatalf("C13: sync request failed: %v (panics %+v)", err, server.VerifPanics())
			}
			if !refused {
				r, err := ref.DecodeSyncReply(reply)
				if err != nil || r.DeviceKey != c.d1.Pub || !ref.Verify([32]byte(c.S.VerifSnapshot().ServerPub), r.Body(), r.Sig) {
					c.t.Fatalf("C13: sync reply under interference is not a valid signed reply for device 1: %v", err)
				}
			}
		}, nil},
		{"yield:authsrv:between-locks", "add-server-y", func(c *c13Ctx) {
			as := ref.AuthServer{PublicKey: keyFor("c13-peer-y").Pub, Location: "127.0.0.1", HttpPort: 1, TcpPort: 1, UdpPort: 1}
			as.Sig = ref.Sign(c.gca, as.SigningBytes())
			st, b, err := c.S.PostJSON("/api/v1/authorized-servers", world.ToGlowServer(as))
			c.must(st, b, err, "add-server-y", true)
		}, nil},
		{"yield:authsrv:before-forward", "add-server-y", func(c *c13Ctx) {
			as := ref.AuthServer{PublicKey: keyFor("c13-peer-y").Pub, Location: "127.0.0.1", HttpPort: 1, TcpPort: 1, UdpPort: 1}
			as.Sig = ref.Sign(c.gca, as.SigningBytes())
			st, b, err := c.S.PostJSON("/api/v1/authorized-servers", world.ToGlowServer(as))
			c.must(st, b, err, "add-server-y", true)
		}, nil},
		{"yield:autheq:after-commit", "authorize-d9", func(c *c13Ctx) {
			a := ref.Auth{ShortID: 9, PublicKey: keyFor("c13-d9").Pub, Capacity: 1 << 30}
			a.Sig = ref.Sign(c.gca, a.SigningBytes())
			st, b, err := c.S.Authorize(a)
			c.must(st, b, err, "authorize-d9", true)
		}, nil},
		{"yield:stats:after-unlock", "stats-archived-false-negatives", func(c *c13Ctx) {
			st, b, err := c.S.Get("/api/v1/all-device-stats?timeslot_offset=0&insert_false_negatives=true")
			c.must(st, b, err, "stats", true)
			var j statsJSON
			if err := json.Unmarshal(b, &j); err != nil || j.TimeslotOffset != 0 {
				c.t.Fatalf("C13: stats reply under interference malformed: %v", err)
			}
		}, nil},
		{"yield:stats:after-unlock", "stats-live", func(c *c13Ctx) {
			off := c.S.VerifSnapshot().Offset
			st, b, err := c.S.Get(fmt.Sprintf("/api/v1/all-device-stats?timeslot_offset=%d", off))
			c.must(st, b, err, "stats-live", false)
		}, nil},
		{"yield:migrate-order:between-validate-and-store", "migrate-order-d1", func(c *c13Ctx) {
			ng := keyFor("c13-newgca")
			m := ref.Migration{Equipment: c.d1.Pub, NewGCA: ng.Pub, NewShortID: 11}
			m.Sig = ref.Sign(c.gca, m.SigningBytes())
			st, b, err := c.S.PostJSON("/api/v1/equipment-migrate", world.ToGlowMigration(m))
			c.must(st, b, err, "migrate-order-d1", true)
		}, nil},
	}
}

// c13Base builds a data directory with a registered GCA, two devices with
// reports in both halves of the window, and one archived week; it returns the
// directory (server closed).
func c13Base(t TB, variant int) (dir string, gca, temp, d1, d2 ref.Key) {
	server.VerifSetStepping(true)
	temp, gca, d1, d2 = keyFor("temp"), keyFor("gca"), keyFor("c13-d1"), keyFor("c13-d2")
	s := newSess(t, "C13", temp, 0)
	s.start()
	s.register(gca, temp, true)
	for i, k := range []ref.Key{d1, d2} {
		a := ref.Auth{ShortID: uint32(i + 1), PublicKey: k.Pub, Capacity: 1 << 30, Latitude: float64(10 + i), Longitude: 20}
		a.Sig = ref.Sign(gca, a.SigningBytes())
		s.authorize(a, "new")
	}
	s.setClock(100)
	for i := 0; i < 20+variant; i++ {
		s.datagram(ref.SignedReport(d1, 1, uint32(50+i), uint64(100+i)).Encode(), "base")
		s.datagram(ref.SignedReport(d2, 2, uint32(60+i*2), uint64(200+i)).Encode(), "base")
	}
	s.setClock(3300)
	s.stepMigrate() // archive week 0
	s.setClock(2016 + 1000)
	for i := 0; i < 10+variant; i++ {
		s.datagram(ref.SignedReport(d1, 1, uint32(2016+900+i), uint64(300+i)).Encode(), "base")
		s.datagram(ref.SignedReport(d2, 2, uint32(2016+2100+i), uint64(400+i)).Encode(), "base")
	}
	s.close()
	server.VerifPanics()
	return s.dir, gca, temp, d1, d2
}

// c13Run starts a copy of the base directory, installs the authorized peer,
// runs f and returns the canonical final state.
func c13Run(t TB, base string, gca, temp, d1, d2 ref.Key, what string, f func(c *c13Ctx)) string {
	dir := world.CopyDir(base)
	defer os.RemoveAll(dir)
	glow.SetCurrentTimeslot(2016 + 1000)
	srv, err := world.StartServer(dir)
	if err != nil {
		t.Fatalf("C13: %s: server does not start: %v", what, err)
	}
	peer := ref.AuthServer{PublicKey: keyFor("c13-peer-0").Pub, Location: "127.0.0.1", HttpPort: 1, TcpPort: 1, UdpPort: 1}
	peer.Sig = ref.Sign(gca, peer.SigningBytes())
	srv.S.VerifInstallAuthorizedServer(world.ToGlowServer(peer))
	c := &c13Ctx{t: t, S: srv, gca: gca, temp: temp, d1: d1, d2: d2}
	if !world.DoActive(40*time.Second, func() { f(c) }) {
		srv.Abandon()
		t.Fatalf("C13: %s: operations did not complete within 40 s of active time (deadlock?); panics: %+v", what, server.VerifPanics())
	}
	server.VerifClearCallbacks()
	if ps := server.VerifPanics(); len(ps) > 0 {
		srv.Abandon()
		t.Fatalf("C13: %s: server goroutine panicked: %s: %s\n%s", what, ps[0].Where, ps[0].Value, trimStack(ps[0].Stack))
	}
	if a, b := serverLocksFree(srv.S); !a || !b {
		srv.Abandon()
		t.Fatalf("C13: %s: a server mutex is still held at quiescence (server %v, list %v)", what, a, b)
	}
	func() {
		defer func() {
			if r := recover(); r != nil {
				srv.Abandon()
				t.Fatalf("C13: %s: the server's consistency check fails: %v", what, r)
			}
		}()
		srv.S.CheckInvariants()
	}()
	out := canon(srv.VerifSnapshot())
	glow.SetCurrentTimeslot(srv.VerifSnapshot().Offset)
	if err := srv.Close(); err != nil && (strings.HasPrefix(err.Error(), "panic:") || strings.HasPrefix(err.Error(), "timeout:")) {
		t.Fatalf("C13: %s: shutdown failed: %v", what, err)
	}
	return out
}

func TestC13Interleavings(t *testing.T) {
	ev.Rule("C13(1): COMPLETE MATRIX of (yield point x outer operation) x (interferer menu: ban a device, authorize a device, report, equivocating reports, rotation step, registration attempt, add server, ban server, statistics GET with false negatives, impact step, migration order) on a generated base state (two devices, reports in both halves, one archived week, one authorized peer): the interferer runs from the yield point's callback inside the outer operation; oracle: the canonical final state equals the final state of one of the two serial orders executed on identical copies of the data directory, no goroutine panics, both mutexes are free, CheckInvariants passes, shutdown works; every cell is non-trivial; distinct by (point, outer, interferer, base variant)")
	variants := pick(1, 4)
	cells := 0
	for v := 0; v < variants; v++ {
		base, gca, temp, d1, d2 := c13Base(t, v*int(seedFromEnv()%5+1))
		defer os.RemoveAll(base)
		for _, outer := range c13Outers() {
			for _, inter := range c13Interferers() {
				if outer.exclude[inter.name] {
					continue
				}
				outer, inter := outer, inter
				what := fmt.Sprintf("%s[%s] x %s", outer.point, outer.name, inter.name)
				lastCase(map[string]interface{}{"point": outer.point, "outer": outer.name, "interferer": inter.name, "base_variant": v})
				journal(map[string]interface{}{"point": outer.point, "outer": outer.name, "interferer": inter.name, "base_variant": v})
				fired := false
				interleaved := c13Run(t, base, gca, temp, d1, d2, what+" (interleaved)", func(c *c13Ctx) {
					var once sync.Once
					server.VerifOn(outer.point, func(g *server.GCAServer, name string) {
						if g != c.S.S {
							return
						}
						once.Do(func() {
							fired = true
							server.VerifOn(outer.point, nil)
							inter.run(c)
						})
					})
					outer.run(c)
					server.VerifOn(outer.point, nil)
				})
				if !fired {
					t.Fatalf("C13: %s: the yield point did not fire during the outer operation", what)
				}
				ab := c13Run(t, base, gca, temp, d1, d2, what+" (serial outer,interferer)", func(c *c13Ctx) { outer.run(c); inter.run(c) })
				ba := c13Run(t, base, gca, temp, d1, d2, what+" (serial interferer,outer)", func(c *c13Ctx) { inter.run(c); outer.run(c) })
				if interleaved != ab && interleaved != ba {
					t.Fatalf("C13: %s: the interleaved result equals neither serial order.\n--- interleaved ---\n%s--- outer,interferer ---\n%s--- interferer,outer ---\n%s", what, diffHead(interleaved, ab), diffHead(ab, interleaved), diffHead(ba, interleaved))
				}
				cells++
				ev.Eval(3)
				ev.NonTrivial(fmt.Sprintf("c13|cell|%s|%d", what, v))
				ev.Label("c13:cell")
				if ab != ba {
					ev.Label("c13:cell-order-sensitive")
				}
				if cells%13 == 1 {
					ev.Sample("c13:matrix-cell", map[string]interface{}{"point": outer.point, "outer": outer.name, "interferer": inter.name, "serial_orders_differ": ab != ba, "equals": map[bool]string{true: "outer,interferer", false: "interferer,outer"}[interleaved == ab]})
				}
			}
		}
	}
	ev.Exhaustive("c13: full (yield point x interferer) matrix")
	ev.Set("c13_matrix_cells", cells)
}

// diffHead shows the lines of a that are not in b (first few).
func diffHead(a, b string) string {
	in := map[string]bool{}
	for _, l := range strings.Split(b, "\n") {
		in[l] = true
	}
	var out []string
	for _, l := range strings.Split(a, "\n") {
		if !in[l] {
			out = append(out, l)
		}
	}
	if len(out) > 12 {
		out = append(out[:12], "...")
	}
	if len(out) == 0 {
		return "(no line differs)\n"
	}
	return strings.Join(out, "\n") + "\n"
}

// ---- (2) workloads -----------------------------------------------------------

// preRotationClockOK: with oneRotation the clock jumps from 0 to 3300 when the
// workload starts; every generated slot is within 432 of 3300 and inside both
// the old window [0,4032) and the new one [2016,6048).
func preRotationClockOK(slot uint32) bool { return slot >= 2868 && slot <= 3732 }

type c13Work struct {
	desc string
	run  func(S *world.Server) error
}

func TestC13Workloads(t *testing.T) {
	ev.Rule("C13(2): randomised workloads: 8-32 goroutines execute a generated multiset of operations whose outcome does not depend on order (reports to distinct device/slot pairs in the second half of the window, replays, equivocating pairs, authorizations of fresh ids, duplicates, conflicting pairs, GETs of every endpoint, sync requests, refused server-list and migration posts, one valid and several invalid registrations) on an initially unregistered or registered server with both background jobs free-running and at most one rotation able to trigger; run under the race detector by the driver; oracle: no race report, no panic, mutexes free and CheckInvariants at quiescence, final devices/bans/slot values equal the reference model applied to the multiset; non-trivial = workload with >= 2 goroutines touching the same device or slot; distinct by workload")
	rapid.Check(t, func(t *rapid.T) {
		ev.Eval(1)
		server.VerifSetStepping(false)
		defer server.VerifSetStepping(true)
		temp, gca := keyFor("temp"), keyFor("gca")
		glow.SetCurrentTimeslot(0)
		dir := world.NewServerDir(temp.Pub)
		defer os.RemoveAll(dir)
		srv, err := world.StartServer(dir)
		if err != nil {
			t.Fatalf("C13: start: %v", err)
		}
		closed := false
		defer func() {
			glow.SetCurrentTimeslot(0)
			if !closed {
				if a, b := srv.S.VerifTryLocks(); a && b {
					srv.Close()
				} else {
					srv.Abandon()
				}
			}
			world.StopAllLeaked()
			server.VerifPanics()
		}()
		m := ref.NewModel(temp.Pub)
		preRegistered := rapid.Bool().Draw(t, "preRegistered")
		m.Registered, m.GCA = true, gca.Pub // the single valid registration is part of the workload or done before
		var work []c13Work
		regOp := c13Work{"register(valid)", func(S *world.Server) error {
			st, _, err := S.Register(gca.Pub, temp)
			if err != nil || st != 200 {
				return fmt.Errorf("valid registration: %v %d", err, st)
			}
			return nil
		}}
		if preRegistered {
			if err := regOp.run(srv); err != nil {
				t.Fatalf("C13: %v", err)
			}
		}
		// devices that exist before the workload (so that reports are order-independent)
		nDev := rapid.IntRange(1, 3).Draw(t, "devices")
		keys := map[uint32]ref.Key{}
		var pre []ref.Auth
		for i := 0; i < nDev; i++ {
			id := uint32(i + 1)
			keys[id] = keyFor(fmt.Sprintf("c13w-dev-%d", id))
			a := ref.Auth{ShortID: id, PublicKey: keys[id].Pub, Capacity: 1 << 40, Latitude: float64(i), Longitude: 1}
			a.Sig = ref.Sign(gca, a.SigningBytes())
			pre = append(pre, a)
		}
		if preRegistered {
			for _, a := range pre {
				if st, _, err := srv.Authorize(a); err != nil || st != 200 {
					t.Fatalf("C13: pre-authorization failed")
				}
				m.Authorize(a)
			}
		}
		// clock: either no rotation can trigger, or exactly one will
		oneRotation := rapid.Bool().Draw(t, "oneRotation")
		now := uint32(2500)
		if oneRotation {
			now = 3300
		}
		// With oneRotation the clock is moved past the trigger only when the
		// workload starts, so the free-running loop rotates WHILE the workload
		// runs. All reports target slots that lie in the second half of the old
		// window = first half of the new one and are within 432 of the clock, so
		// they are acceptable before and after the rotation and the final state
		// does not depend on when it happens.
		if !oneRotation {
			glow.SetCurrentTimeslot(now)
		}
		touch := map[string]int{}
		srvNew, srvBanned := map[[32]byte]bool{}, map[[32]byte]bool{}
		srvBanRec := map[[32]byte]ref.AuthServer{} // the GCA's ban record per banned key: the list must hold exactly it
		if preRegistered {
			for i := 0; i < 3; i++ {
				as := ref.AuthServer{PublicKey: keyFor(fmt.Sprintf("c13w-peer-%d", i)).Pub, Location: "127.0.0.1", HttpPort: 1}
				as.Sig = ref.Sign(gca, as.SigningBytes())
				if st, _, err := srv.PostJSON("/api/v1/authorized-servers", world.ToGlowServer(as)); err != nil || st != 200 {
					t.Fatalf("C13: pre-installing a peer failed: %v %d", err, st)
				}
			}
		}
		nOps := rapid.IntRange(20, 80).Draw(t, "ops")
		fresh := uint32(100)
		for i := 0; i < nOps; i++ {
			switch kind := rapid.SampledFrom([]string{"report", "report", "report", "replay", "equivocate", "auth-new", "auth-dup", "auth-conflict", "get", "get", "get", "sync", "post-refused", "post-server-valid", "post-server-valid", "register-invalid"}).Draw(t, "kind"); kind {
			case "report", "replay", "equivocate":
				if !preRegistered {
					continue
				}
				id := uint32(rapid.IntRange(1, nDev).Draw(t, "dev"))
				slot := now - 400 + uint32(rapid.IntRange(0, 800).Draw(t, "slotOff"))
				if oneRotation && !preRotationClockOK(slot) {
					continue
				}
				p := uint64(1000 + rapid.IntRange(0, 3).Draw(t, "p"))
				r := ref.SignedReport(keys[id], id, slot, p)
				n := 1
				if kind == "replay" {
					n = 3
				}
				for j := 0; j < n; j++ {
					b := r.Encode()
					work = append(work, c13Work{fmt.Sprintf("report(dev %d slot %d p %d)", id, slot, p), func(S *world.Server) error { return S.SendUDPNoWait(b) }})
				}
				if kind == "equivocate" {
					b := ref.SignedReport(keys[id], id, slot, p+7).Encode()
					work = append(work, c13Work{fmt.Sprintf("report(dev %d slot %d p %d)", id, slot, p+7), func(S *world.Server) error { return S.SendUDPNoWait(b) }})
				}
				touch[fmt.Sprintf("slot-%d-%d", id, slot)] += n
				if kind == "equivocate" {
					touch[fmt.Sprintf("slot-%d-%d", id, slot)]++
				}
			case "auth-new", "auth-dup", "auth-conflict":
				if !preRegistered {
					continue
				}
				fresh++
				a := ref.Auth{ShortID: fresh, PublicKey: keyFor(fmt.Sprintf("c13w-fresh-%d", fresh)).Pub, Capacity: 99}
				a.Sig = ref.Sign(gca, a.SigningBytes())
				post := func(a ref.Auth) c13Work {
					return c13Work{fmt.Sprintf("authorize(id %d cap %d)", a.ShortID, a.Capacity), func(S *world.Server) error {
						_, _, err := S.Authorize(a)
						return err
					}}
				}
				work = append(work, post(a))
				if kind == "auth-dup" {
					work = append(work, post(a), post(a))
					touch[fmt.Sprintf("id-%d", fresh)] += 3
				}
				if kind == "auth-conflict" {
					b := a
					b.Capacity = 100
					b.Sig = ref.Sign(gca, b.SigningBytes())
					work = append(work, post(b))
					touch[fmt.Sprintf("id-%d", fresh)] += 2
				}
			case "get":
				k1 := keys[1].Pub
				path := rapid.SampledFrom([]string{"/api/v1/equipment", "/api/v1/authorized-servers", "/api/v1/all-device-stats?timeslot_offset=0", "/api/v1/all-device-stats?timeslot_offset=2016&insert_false_negatives=true", "/api/v1/all-device-stats?timeslot_offset=0&insert_false_negatives=true", "/api/v1/archive", "/api/v1/recent-reports?publicKey=" + hex.EncodeToString(k1[:]),
					// requests that are refused: every early return must release what it took
					"/api/v1/all-device-stats?timeslot_offset=4032", "/api/v1/all-device-stats?timeslot_offset=6048", "/api/v1/all-device-stats?timeslot_offset=8064&insert_false_negatives=true",
					"/api/v1/all-device-stats?timeslot_offset=17", "/api/v1/all-device-stats?timeslot_offset=x", "/api/v1/all-device-stats", "/api/v1/all-device-stats?timeslot_offset=4294965248",
					"/api/v1/recent-reports?publicKey=zz", "/api/v1/recent-reports", "/api/v1/recent-reports?publicKey=" + hex.EncodeToString(k1[:31])}).Draw(t, "path")
				work = append(work, c13Work{"GET " + path, func(S *world.Server) error {
					_, _, err := S.Get(path)
					return err
				}})
			case "sync":
				id := uint32(rapid.IntRange(1, nDev+1).Draw(t, "syncID"))
				work = append(work, c13Work{fmt.Sprintf("sync(%d)", id), func(S *world.Server) error {
					_, _, err := S.SyncDevice(id)
					return err
				}})
			case "post-server-valid":
				if !preRegistered {
					continue
				}
				var as ref.AuthServer
				switch rapid.IntRange(0, 3).Draw(t, "srvOp") {
				case 3: // a new peer AND its ban (other location and ports), as two operations: in either order the list ends with the ban record
					fresh++
					k := keyFor(fmt.Sprintf("c13w-newpeer-%d", fresh)).Pub
					first := ref.AuthServer{PublicKey: k, Location: "127.0.0.1", HttpPort: 1, TcpPort: 7, UdpPort: 8}
					first.Sig = ref.Sign(gca, first.SigningBytes())
					srvNew[k] = true
					srvBanned[k] = true
					touch["server-list"]++
					work = append(work, c13Work{fmt.Sprintf("POST authorized-servers %x (then banned)", k[:3]), func(S *world.Server) error {
						st, _, err := S.PostJSON("/api/v1/authorized-servers", world.ToGlowServer(first))
						if err == nil && st != 200 {
							return fmt.Errorf("GCA-signed server authorization refused: %d", st)
						}
						return err
					}})
					as = ref.AuthServer{PublicKey: k, Banned: true, Location: "localhost", HttpPort: 2, TcpPort: 3, UdpPort: 4}
				case 0: // a new peer
					fresh++
					as = ref.AuthServer{PublicKey: keyFor(fmt.Sprintf("c13w-newpeer-%d", fresh)).Pub, Location: "127.0.0.1", HttpPort: 1}
					srvNew[as.PublicKey] = true
				case 1: // ban a pre-installed peer
					i := rapid.IntRange(0, 2).Draw(t, "peer")
					as = ref.AuthServer{PublicKey: keyFor(fmt.Sprintf("c13w-peer-%d", i)).Pub, Banned: true, Location: "127.0.0.1", HttpPort: 1}
					srvBanned[as.PublicKey] = true
				default: // re-submit a pre-installed peer un-banned with other ports (ignored in every order)
					i := rapid.IntRange(0, 2).Draw(t, "peer")
					as = ref.AuthServer{PublicKey: keyFor(fmt.Sprintf("c13w-peer-%d", i)).Pub, Location: "127.0.0.1", HttpPort: 9}
				}
				as.Sig = ref.Sign(gca, as.SigningBytes())
				if as.Banned {
					srvBanRec[as.PublicKey] = as
				}
				touch["server-list"]++
				work = append(work, c13Work{fmt.Sprintf("POST authorized-servers %x banned=%v", as.PublicKey[:3], as.Banned), func(S *world.Server) error {
					st, _, err := S.PostJSON("/api/v1/authorized-servers", world.ToGlowServer(as))
					if err == nil && st != 200 {
						return fmt.Errorf("GCA-signed server authorization refused: %d", st)
					}
					return err
				}})
			case "post-refused":
				// signed by a key that is never the GCA: refused whatever the order
				bad := keyFor("c13w-notgca")
				if which := rapid.IntRange(0, 3).Draw(t, "refusedKind"); which == 2 {
					// an equipment authorization signed by a key that is not the GCA
					a := ref.Auth{ShortID: 77, PublicKey: keyFor("c13w-unauth").Pub, Capacity: 5}
					a.Sig = ref.Sign(bad, a.SigningBytes())
					work = append(work, c13Work{"POST authorize-equipment (not GCA)", func(S *world.Server) error {
						st, _, err := S.Authorize(a)
						if err == nil && st == 200 {
							return fmt.Errorf("equipment authorization by a non-GCA key honoured")
						}
						return err
					}})
				} else if which == 3 {
					// bodies that do not decode: the handlers return early
					route := rapid.SampledFrom([]string{"/api/v1/authorize-equipment", "/api/v1/authorized-servers", "/api/v1/equipment-migrate", "/api/v1/register-gca"}).Draw(t, "malformedRoute")
					body := rapid.SampledFrom([]string{"{", "[]", "null", `{"ShortID":"x"}`, `{"PublicKey":[1,2,3]}`, ""}).Draw(t, "malformedBody")
					work = append(work, c13Work{"POST " + route + " (malformed body)", func(S *world.Server) error {
						st, _, err := S.Do("POST", route, []byte(body))
						if err == nil && st == 200 {
							return fmt.Errorf("malformed body %q accepted by %s", body, route)
						}
						return err
					}})
				} else if which == 0 {
					as := ref.AuthServer{PublicKey: keyFor("c13w-peer").Pub, Location: "127.0.0.1", HttpPort: 1}
					as.Sig = ref.Sign(bad, as.SigningBytes())
					work = append(work, c13Work{"POST authorized-servers (not GCA)", func(S *world.Server) error {
						st, _, err := S.PostJSON("/api/v1/authorized-servers", world.ToGlowServer(as))
						if err == nil && st == 200 {
							return fmt.Errorf("server authorization by a non-GCA key honoured")
						}
						return err
					}})
				} else {
					mg := ref.Migration{Equipment: keys[1].Pub, NewGCA: bad.Pub, NewShortID: 3}
					mg.Sig = ref.Sign(bad, mg.SigningBytes())
					work = append(work, c13Work{"POST equipment-migrate (not GCA)", func(S *world.Server) error {
						st, _, err := S.PostJSON("/api/v1/equipment-migrate", world.ToGlowMigration(mg))
						if err == nil && st == 200 {
							return fmt.Errorf("migration order by a non-GCA key honoured")
						}
						return err
					}})
				}
			case "register-invalid":
				k := keyFor("c13w-evil")
				work = append(work, c13Work{"register(invalid signer)", func(S *world.Server) error {
					st, _, err := S.Register(k.Pub, k)
					if err == nil && st == 200 {
						return fmt.Errorf("registration signed by the candidate itself accepted")
					}
					return err
				}})
			}
		}
		// Without a registered GCA the workload contains several valid
		// registrations for different candidates: whatever the interleaving,
		// exactly one may be answered with success and its key is the GCA
		// afterwards (the sequential rules allow no other outcome).
		var regMu sync.Mutex
		var regWon [][32]byte
		if !preRegistered {
			for i, n := 0, rapid.IntRange(1, 5).Draw(t, "registrations"); i < n; i++ {
				cand := gca
				if i > 0 {
					cand = keyFor(fmt.Sprintf("c13w-gca-%d", i))
				}
				work = append(work, c13Work{fmt.Sprintf("register(valid, candidate %d)", i), func(S *world.Server) error {
					st, _, err := S.Register(cand.Pub, temp)
					if err != nil {
						return fmt.Errorf("valid registration: %v", err)
					}
					if st == 200 {
						regMu.Lock()
						regWon = append(regWon, cand.Pub)
						regMu.Unlock()
					}
					return nil
				}})
			}
			touch["registration"] = 2
		}
		workers := rapid.SampledFrom([]int{8, 16, 32}).Draw(t, "goroutines")
		order := rapid.Permutation(work).Draw(t, "order")
		var descs []string
		for _, w := range order {
			descs = append(descs, w.desc)
		}
		journal(map[string]interface{}{"workload": descs, "goroutines": workers})
		lastCase(map[string]interface{}{"workload": descs, "goroutines": workers, "pre_registered": preRegistered, "one_rotation": oneRotation})
		udpBefore := srv.S.VerifUDPHandled()
		udpSent := 0
		for _, w := range order {
			if strings.HasPrefix(w.desc, "report(") {
				udpSent++
			}
		}
		if oneRotation {
			glow.SetCurrentTimeslot(now) // the rotation loop will now rotate at some point during the workload
		}
		ch := make(chan c13Work, len(order))
		for _, w := range order {
			ch <- w
		}
		close(ch)
		var wg sync.WaitGroup
		errs := make(chan error, len(order))
		var failed atomic.Bool
		for g := 0; g < workers; g++ {
			wg.Add(1)
			go func() {
				defer wg.Done()
				for w := range ch {
					if failed.Load() {
						continue // after the first failure the rest is skipped (a wedged server would cost 20 s per operation)
					}
					if err := w.run(srv); err != nil {
						failed.Store(true)
						errs <- fmt.Errorf("%s: %v", w.desc, err)
					}
				}
			}()
		}
		wg.Wait()
		close(errs)
		for err := range errs {
			t.Fatalf("C13: operation failed in the workload: %v (panics %+v)", err, server.VerifPanics())
		}
		if !preRegistered {
			if len(regWon) != 1 {
				t.Fatalf("C13: %d of the concurrent valid registrations were answered with success, every sequential order gives exactly one", len(regWon))
			}
			m.GCA = regWon[0]
		}
		if oneRotation {
			if !world.WaitActive(5*time.Second, 5*time.Millisecond, func() bool { return srv.VerifSnapshot().Offset == 2016 }) {
				t.Fatalf("C13: the rotation loop did not rotate at now-offset=3300 (offset %d); panics %+v", srv.VerifSnapshot().Offset, server.VerifPanics())
			}
			m.Rotate()
		}
		// quiescence: all datagrams handled
		if !world.WaitActive(8*time.Second, time.Millisecond, func() bool { return srv.S.VerifUDPHandled() >= udpBefore+uint64(udpSent) }) {
			t.Fatalf("C13: only %d of %d datagrams were processed within 5 s (loopback loss or wedge); panics %+v", srv.S.VerifUDPHandled()-udpBefore, udpSent, server.VerifPanics())
		}
		if ps := server.VerifPanics(); len(ps) > 0 {
			t.Fatalf("C13: server goroutine panicked in the workload: %s: %s\n%s", ps[0].Where, ps[0].Value, trimStack(ps[0].Stack))
		}
		// model from the multiset (order-independent by construction):
		// authorizations first, then reports
		for _, w := range work {
			var id uint32
			var capv uint64
			if n, _ := fmt.Sscanf(w.desc, "authorize(id %d cap %d)", &id, &capv); n == 2 {
				a := ref.Auth{ShortID: id, PublicKey: keyFor(fmt.Sprintf("c13w-fresh-%d", id)).Pub, Capacity: capv}
				a.Sig = ref.Sign(gca, a.SigningBytes())
				m.Authorize(a)
			}
		}
		for _, w := range work {
			var id, slot uint32
			var p uint64
			if n, _ := fmt.Sscanf(w.desc, "report(dev %d slot %d p %d)", &id, &slot, &p); n == 3 {
				r := ref.SignedReport(keys[id], id, slot, p)
				if v := m.Judge(r.Encode(), now, ref.Verify); v.Accept {
					m.Apply(r)
				}
			}
		}
		if a, b := serverLocksFree(srv.S); !a || !b {
			t.Fatalf("C13: a server mutex is still held at quiescence (server %v, list %v)", a, b)
		}
		func() {
			defer func() {
				if r := recover(); r != nil {
					t.Fatalf("C13: the server's consistency check fails after the workload: %v", r)
				}
			}()
			srv.S.CheckInvariants()
		}()
		snap := srv.VerifSnapshot()
		if snap.GCAAvailable != true || [32]byte(snap.GCAKey) != m.GCA {
			t.Fatalf("C13: registration state after the workload: available=%v, key %x, the registration answered with success carried %x", snap.GCAAvailable, snap.GCAKey[:4], m.GCA[:4])
		}
		if snap.Offset != m.Offset {
			t.Fatalf("C13: window offset %d after the workload, expected %d", snap.Offset, m.Offset)
		}
		if len(snap.Equipment) != len(m.Devices) || len(snap.Bans) != len(m.Bans) {
			t.Fatalf("C13: %d devices / %d bans after the workload, the sequential rules give %d / %d", len(snap.Equipment), len(snap.Bans), len(m.Devices), len(m.Bans))
		}
		for id := range m.Devices {
			if _, ok := snap.Equipment[id]; !ok {
				t.Fatalf("C13: device %d missing after the workload", id)
			}
			for i := range m.Live[id] {
				if got, want := snap.Reports[id][i].PowerOutput, m.Live[id][i].Value(); got != want {
					t.Fatalf("C13: device %d slot %d holds %d after the workload, the sequential rules give %d", id, i, got, want)
				}
			}
		}
		for id := range m.Bans {
			found := false
			for _, b := range snap.Bans {
				if b == id {
					found = true
				}
			}
			if !found {
				t.Fatalf("C13: id %d is not banned after a conflicting pair of authorizations", id)
			}
		}
		if preRegistered {
			got := map[[32]byte]bool{}
			for _, x := range snap.Servers {
				if _, dup := got[[32]byte(x.PublicKey)]; dup {
					t.Fatalf("C13: authorized server %x listed twice after the workload", x.PublicKey[:3])
				}
				got[[32]byte(x.PublicKey)] = x.Banned
			}
			if len(got) != 3+len(srvNew) {
				t.Fatalf("C13: %d authorized servers after the workload, the sequential rules give %d", len(got), 3+len(srvNew))
			}
			for i := 0; i < 3; i++ {
				k := keyFor(fmt.Sprintf("c13w-peer-%d", i)).Pub
				if b, ok := got[k]; !ok || b != srvBanned[k] {
					t.Fatalf("C13: peer %d after the workload: listed=%v banned=%v, the sequential rules give banned=%v", i, ok, b, srvBanned[k])
				}
			}
			for k := range srvNew {
				if b, ok := got[k]; !ok || b != srvBanned[k] {
					t.Fatalf("C13: new peer %x after the workload: listed=%v banned=%v, the sequential rules give banned=%v", k[:3], ok, b, srvBanned[k])
				}
			}
			for _, x := range snap.Servers {
				if rec, ok := srvBanRec[[32]byte(x.PublicKey)]; ok {
					if !bytes.Equal(world.FromGlowServer(x).Encode(), rec.Encode()) {
						t.Fatalf("C13: banned server %x is listed as %+v, every sequential order leaves the GCA's ban record %+v (location, ports and signature included)", x.PublicKey[:3], world.FromGlowServer(x), rec)
					}
				}
			}
		}
		shared := 0
		for _, n := range touch {
			if n >= 2 {
				shared++
			}
		}
		if shared > 0 {
			ev.NonTrivial(fmt.Sprintf("c13|work|%v", descs))
			ev.Label("c13:workload-with-contention")
			ev.Sample("c13:workload", map[string]interface{}{"operations": len(order), "goroutines": workers, "contended_keys": shared, "pre_registered": preRegistered, "one_rotation": oneRotation, "first_ops": descs[:min(len(descs), 12)]})
		}
		glow.SetCurrentTimeslot(snap.Offset)
		err = srv.Close()
		closed = true
		if err != nil && (strings.HasPrefix(err.Error(), "panic:") || strings.HasPrefix(err.Error(), "timeout:")) {
			t.Fatalf("C13: shutdown after the workload failed: %v", err)
		}
	})
}

// TestC13RotationVsReaders: readers of every kind run while the free-running
// rotation loop rotates several times. Nothing but the rotations changes the
// state, so the final state is known; under the race detector (driver) this is
// where an unlocked read of the window offset or of the archive shows up, since
// few other accesses lie between the rotation's write and the racing read.
func TestC13RotationVsReaders(t *testing.T) {
	ev.Rule("C13(2b): 2-4 rotations by the free-running loop while 4-12 goroutines issue statistics queries (live, archived, future, misaligned, with false negatives), recent-reports, equipment, archive and sync requests; run under the race detector; oracle: no race report, no panic, every 200 statistics reply parses and verifies under the server key, final offset = 2016 x rotations, archive contiguous, CheckInvariants; non-trivial = every case")
	rapid.Check(t, func(t *rapid.T) {
		ev.Eval(1)
		server.VerifSetStepping(false)
		defer server.VerifSetStepping(true)
		temp, gca := keyFor("temp"), keyFor("gca")
		glow.SetCurrentTimeslot(100)
		dir := world.NewServerDir(temp.Pub)
		defer os.RemoveAll(dir)
		srv, err := world.StartServer(dir)
		if err != nil {
			t.Fatalf("C13: start: %v", err)
		}
		closed := false
		defer func() {
			glow.SetCurrentTimeslot(0)
			if !closed {
				if a, b := srv.S.VerifTryLocks(); a && b {
					srv.Close()
				} else {
					srv.Abandon()
				}
			}
			world.StopAllLeaked()
			server.VerifPanics()
		}()
		if st, _, err := srv.Register(gca.Pub, temp); err != nil || st != 200 {
			t.Fatalf("C13: registration failed")
		}
		dk := keyFor("c13r-dev")
		a := ref.Auth{ShortID: 1, PublicKey: dk.Pub, Capacity: 1 << 40}
		a.Sig = ref.Sign(gca, a.SigningBytes())
		if st, _, err := srv.Authorize(a); err != nil || st != 200 {
			t.Fatalf("C13: authorization failed")
		}
		for i := 0; i < 10; i++ {
			srv.SendUDP(ref.SignedReport(dk, 1, uint32(90+i), uint64(100+i)).Encode())
		}
		pub := [32]byte(srv.VerifSnapshot().ServerPub)
		rotations := rapid.IntRange(2, 4).Draw(t, "rotations")
		readers := rapid.IntRange(4, 12).Draw(t, "readers")
		pk := hex.EncodeToString(dk.Pub[:])
		for r := 1; r <= rotations; r++ {
			stop := make(chan struct{})
			var wg sync.WaitGroup
			errs := make(chan string, readers)
			for g := 0; g < readers; g++ {
				wg.Add(1)
				go func(g int) {
					defer wg.Done()
					paths := []string{"/api/v1/all-device-stats?timeslot_offset=0", fmt.Sprintf("/api/v1/all-device-stats?timeslot_offset=%d", 2016*(r-1)), fmt.Sprintf("/api/v1/all-device-stats?timeslot_offset=%d", 2016*r),
						fmt.Sprintf("/api/v1/all-device-stats?timeslot_offset=%d&insert_false_negatives=true", 2016*(r-1)), "/api/v1/all-device-stats?timeslot_offset=17", "/api/v1/recent-reports?publicKey=" + pk, "/api/v1/equipment", "/api/v1/archive"}
					for i := 0; ; i++ {
						select {
						case <-stop:
							return
						default:
						}
						p := paths[(i+g)%len(paths)]
						st, body, err := srv.Get(p)
						if err != nil {
							errs <- fmt.Sprintf("GET %s: %v", p, err)
							return
						}
						if st == 200 && strings.Contains(p, "all-device-stats") && !strings.Contains(p, "false_negatives") {
							var j statsJSON
							if json.Unmarshal(body, &j) != nil {
								errs <- "statistics reply does not parse during a rotation"
								return
							}
							if w, err := j.week(); err != nil || !ref.Verify(pub, w.SigningBytes(), w.Sig) {
								errs <- fmt.Sprintf("statistics reply for %s served during a rotation does not verify under the server key", p)
								return
							}
						}
						if i%5 == 0 {
							srv.SyncDevice(1)
						}
					}
				}(g)
			}
			glow.SetCurrentTimeslot(uint32(2016*(r-1) + 3300))
			world.WaitActive(6*time.Second, 3*time.Millisecond, func() bool { return srv.VerifSnapshot().Offset == uint32(2016*r) })
			time.Sleep(10 * time.Millisecond)
			close(stop)
			wg.Wait()
			select {
			case e := <-errs:
				t.Fatalf("C13: %s (panics %+v)", e, server.VerifPanics())
			default:
			}
			if off := srv.VerifSnapshot().Offset; off != uint32(2016*r) {
				t.Fatalf("C13: after rotation %d the window offset is %d", r, off)
			}
		}
		if ps := server.VerifPanics(); len(ps) > 0 {
			t.Fatalf("C13: server goroutine panicked: %s: %s", ps[0].Where, ps[0].Value)
		}
		snap := srv.VerifSnapshot()
		if len(snap.History) != rotations {
			t.Fatalf("C13: %d archived weeks after %d rotations", len(snap.History), rotations)
		}
		for k, w := range snap.History {
			if w.TimeslotOffset != uint32(2016*k) {
				t.Fatalf("C13: archived week %d labelled %d", k, w.TimeslotOffset)
			}
		}
		func() {
			defer func() {
				if r := recover(); r != nil {
					t.Fatalf("C13: consistency check fails: %v", r)
				}
			}()
			srv.S.CheckInvariants()
		}()
		ev.NonTrivial(fmt.Sprintf("c13|rotvsreaders|%d|%d", rotations, readers))
		ev.Label("c13:rotation-vs-readers")
		ev.Sample("c13:rotation-vs-readers", map[string]interface{}{"rotations": rotations, "reader_goroutines": readers})
		glow.SetCurrentTimeslot(snap.Offset)
		err = srv.Close()
		closed = true
		if err != nil && (strings.HasPrefix(err.Error(), "panic:") || strings.HasPrefix(err.Error(), "timeout:")) {
			t.Fatalf("C13: shutdown failed: %v", err)
		}
	})
}
