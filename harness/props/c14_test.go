//go:build test && verif

package props

// C14 - archive download is a consistent, public-only snapshot.

import (
	"archive/zip"
	"bytes"
	"fmt"
	"io"
	"os"
	"path/filepath"
	"sort"
	"strings"
	"sync"
	"testing"
	"time"

	"github.com/glowlabs-org/gca-backend/glow"
	"github.com/glowlabs-org/gca-backend/server"
	"pgregory.net/rapid"

	"verif/harness/ev"
	"verif/harness/ref"
	"verif/harness/world"
)

type archive struct {
	files map[string][]byte
	order []string
}

func parseArchive(b []byte) (*archive, error) {
	zr, err := zip.NewReader(bytes.NewReader(b), int64(len(b)))
	if err != nil {
		return nil, err
	}
	a := &archive{files: map[string][]byte{}}
	for _, f := range zr.File {
		rc, err := f.Open()
		if err != nil {
			return nil, err
		}
		data, err := io.ReadAll(rc)
		rc.Close()
		if err != nil {
			return nil, err
		}
		a.files[f.Name] = data
		a.order = append(a.order, f.Name)
	}
	return a, nil
}

// checkArchive applies the C14 oracle to one archive. final holds the file
// contents read after all writes completed. aligned says whether record
// alignment may be asserted (writes were complete whenever a file was read).
func checkArchive(a *archive, dir string, priv [32]byte, pub [32]byte, aligned bool) string {
	for name, data := range a.files {
		if name == "server.keys" {
			return "the archive contains server.keys"
		}
		if bytes.Contains(data, priv[:]) {
			return "the archive entry " + name + " contains the server's private key"
		}
	}
	if k, ok := a.files["server.pubkey"]; !ok || !bytes.Equal(k, pub[:]) {
		return fmt.Sprintf("server.pubkey is missing or is not exactly the 32-byte public key (%d bytes)", len(a.files["server.pubkey"]))
	}
	final := func(name string) []byte {
		b, _ := os.ReadFile(filepath.Join(dir, name))
		return b
	}
	for _, name := range []string{"allDeviceStats.dat", "equipment-reports.dat", "equipment-authorizations.dat", "gcaPubKey.dat", "gcaTempPubKey.dat"} {
		data, ok := a.files[name]
		if !ok {
			return "public file " + name + " missing from the archive"
		}
		if !bytes.HasPrefix(final(name), data) {
			return name + " in the archive is not a prefix of the file"
		}
	}
	reports := a.files["equipment-reports.dat"]
	auths := a.files["equipment-authorizations.dat"]
	if aligned || len(reports)%80 == 0 {
		if len(reports)%80 != 0 {
			return fmt.Sprintf("equipment-reports.dat in the archive has %d bytes, not a whole number of records", len(reports))
		}
	}
	if aligned && len(auths)%148 != 0 {
		return fmt.Sprintf("equipment-authorizations.dat in the archive has %d bytes, not a whole number of records", len(auths))
	}
	gcaKey := a.files["gcaPubKey.dat"]
	var gk [32]byte
	copy(gk[:], gcaKey)
	byID := map[uint32][]ref.Auth{}
	for i := 0; i+148 <= len(auths); i += 148 {
		au, _ := ref.DecodeAuth(auths[i : i+148])
		if len(gcaKey) != 32 || !ref.Verify(gk, au.SigningBytes(), au.Sig) {
			return fmt.Sprintf("archived authorization %d (id %d) does not verify under the archived GCA key", i/148, au.ShortID)
		}
		byID[au.ShortID] = append(byID[au.ShortID], au)
	}
	for i := 0; i+80 <= len(reports); i += 80 {
		r, _ := ref.DecodeReport(reports[i : i+80])
		ok := false
		for _, au := range byID[r.ShortID] {
			if ref.Verify(au.PublicKey, r.SigningBytes(), r.Sig) {
				ok = true
			}
		}
		if !ok {
			return fmt.Sprintf("archived report %d (device %d, timeslot %d) has no authorization in the same archive under which it verifies", i/80, r.ShortID, r.Timeslot)
		}
	}
	stats := a.files["allDeviceStats.dat"]
	for len(stats) > 0 {
		w, n, err := ref.DecodeWeekStream(stats)
		if err != nil {
			if aligned {
				return "allDeviceStats.dat in the archive ends inside a record"
			}
			break
		}
		if !ref.Verify(pub, w.SigningBytes(), w.Sig) {
			return fmt.Sprintf("archived weekly record (week %d) does not verify under the archived server public key", w.Offset)
		}
		stats = stats[n:]
	}
	return ""
}

type c14Burst struct {
	name string
	run  func(S *world.Server, st *c14State) error
}

type c14State struct {
	gca, temp ref.Key
	seq       int
	mu        sync.Mutex
}

func (st *c14State) next() int {
	st.mu.Lock()
	defer st.mu.Unlock()
	st.seq++
	return st.seq
}

func c14Bursts() []c14Burst {
	newDevReport := func(S *world.Server, st *c14State) error {
		if !S.VerifSnapshot().GCAAvailable {
			return nil // nothing can be authorized yet
		}
		n := st.next()
		k := keyFor(fmt.Sprintf("c14-dev-%d", n))
		a := ref.Auth{ShortID: uint32(1000 + n), PublicKey: k.Pub, Capacity: 1 << 30}
		a.Sig = ref.Sign(st.gca, a.SigningBytes())
		if code, _, err := S.Authorize(a); err != nil || code != 200 {
			return fmt.Errorf("burst authorization failed: %v %d", err, code)
		}
		if err := S.SendUDP(ref.SignedReport(k, a.ShortID, glow.CurrentTimeslot(), 50).Encode()); err != nil {
			return fmt.Errorf("burst report failed: %v", err)
		}
		return nil
	}
	return []c14Burst{
		{"new-device+first-report", newDevReport},
		{"registration+first-device+report", func(S *world.Server, st *c14State) error {
			code, _, err := S.Register(st.gca.Pub, st.temp)
			if err != nil {
				return fmt.Errorf("burst registration failed: %v", err)
			}
			if code == 200 || S.VerifSnapshot().GCAAvailable {
				return newDevReport(S, st)
			}
			return nil
		}},
		{"rotation", func(S *world.Server, st *c14State) error {
			snap := S.VerifSnapshot()
			glow.SetCurrentTimeslot(snap.Offset + 3300)
			if !world.Step(S.S, "migrate") {
				return fmt.Errorf("burst rotation did not complete")
			}
			return nil
		}},
		{"conflict-ban", func(S *world.Server, st *c14State) error {
			snap := S.VerifSnapshot()
			var ids []uint32
			for id := range snap.Equipment {
				ids = append(ids, id)
			}
			if len(ids) == 0 {
				return nil
			}
			sort.Slice(ids, func(i, j int) bool { return ids[i] < ids[j] })
			a := world.FromGlowAuth(snap.Equipment[ids[0]])
			a.Capacity++
			a.Sig = ref.Sign(st.gca, a.SigningBytes())
			S.Authorize(a)
			return nil
		}},
		{"report-burst", func(S *world.Server, st *c14State) error {
			snap := S.VerifSnapshot()
			for id, a := range snap.Equipment {
				for g := 1; g < 60; g++ {
					k := keyFor(fmt.Sprintf("c14-dev-%d", g))
					if k.Pub == [32]byte(a.PublicKey) {
						for j := 0; j < 5; j++ {
							S.SendUDP(ref.SignedReport(k, id, glow.CurrentTimeslot()+uint32(j)+uint32(st.next()%50), 60).Encode())
						}
					}
				}
				break
			}
			return nil
		}},
		{"forged-resubmission", func(S *world.Server, st *c14State) error {
			// an authorization for a device the server already holds (same id, same
			// key), another field changed, signed by somebody who is not the GCA:
			// refused, and nothing of it may reach the files the archive publishes
			snap := S.VerifSnapshot()
			var ids []uint32
			for id := range snap.Equipment {
				ids = append(ids, id)
			}
			if len(ids) == 0 {
				return nil
			}
			sort.Slice(ids, func(i, j int) bool { return ids[i] < ids[j] })
			a := world.FromGlowAuth(snap.Equipment[ids[0]])
			a.Debt += 7
			a.Sig = ref.Sign(keyFor("c14-not-the-gca"), a.SigningBytes())
			code, _, err := S.Authorize(a)
			if err != nil {
				return fmt.Errorf("burst authorization request failed: %v", err)
			}
			if code == 200 {
				return fmt.Errorf("an authorization that is not signed by the GCA was accepted")
			}
			return nil
		}},
		{"second-registration", func(S *world.Server, st *c14State) error {
			// another key, correctly signed by the temporary key, on a registered
			// server: refused - and the archive must keep verifying under the one
			// registered key
			if !S.VerifSnapshot().GCAAvailable {
				return nil
			}
			code, _, err := S.Register(keyFor("c14-second-gca").Pub, st.temp)
			if err != nil {
				return fmt.Errorf("burst registration request failed: %v", err)
			}
			if code == 200 {
				return fmt.Errorf("a second registration was accepted")
			}
			return nil
		}},
	}
}

var c14Points = []string{"yield:archive:before:allDeviceStats.dat", "yield:archive:before:equipment-reports.dat", "yield:archive:before:equipment-authorizations.dat", "yield:archive:before:gcaPubKey.dat", "yield:archive:before:gcaTempPubKey.dat", "yield:archive:before:server.pubkey"}

func getArchive(S *world.Server) (int, []byte, error) {
	return S.Get("/api/v1/archive")
}

// carriesArchive reports whether a response body holds zip content (a local
// file header or an end-of-central-directory record): a refusal must not
// deliver the archive along with its status code.
func carriesArchive(body []byte) bool {
	return bytes.Contains(body, []byte("PK\x03\x04")) || bytes.Contains(body, []byte("PK\x05\x06"))
}

func TestC14GapMatrix(t *testing.T) {
	ev.Rule("C14(1): COMPLETE MATRIX of (gap before each of the 6 files added to the archive) x (write burst: new device + first report, GCA registration + first device + report, rotation, conflicting authorization, burst of reports, a forged resubmission of a held authorization, a refused second registration) on generated states (unregistered / registered with 0-3 devices, reports, 0-1 archived weeks): the archive is requested and the burst runs from the gap's callback; oracle: every public file in the archive is a record-aligned byte prefix of the final file, every archived report verifies under an authorization in the same archive, every archived authorization under the archived GCA key, every weekly record under the archived server public key, no server.keys entry, the private key bytes occur nowhere, server.pubkey is exactly the public key; non-trivial = archive during which the burst landed; distinct by (state, gap, burst)")
	server.VerifSetStepping(true)
	cells := 0
	rapid.Check(t, func(t *rapid.T) {
		registered := rapid.SampledFrom([]bool{true, true, true, true, false}).Draw(t, "registered")
		nDev := rapid.IntRange(0, 3).Draw(t, "devices")
		withWeek := rapid.Bool().Draw(t, "archivedWeek")
		nRep := rapid.IntRange(0, 6).Draw(t, "reports")
		bannedSlot := rapid.Bool().Draw(t, "bannedSlot") // a second, different report for a slot that has one: the week then holds the ban sentinel
		for _, point := range c14Points {
			for _, burst := range c14Bursts() {
				temp, gca := keyFor("temp"), keyFor("gca")
				glow.SetCurrentTimeslot(100)
				dir := world.NewServerDir(temp.Pub)
				S, err := world.StartServer(dir)
				if err != nil {
					t.Fatalf("C14: start: %v", err)
				}
				st := &c14State{gca: gca, temp: temp}
				cleanup := func() {
					server.VerifClearCallbacks()
					glow.SetCurrentTimeslot(S.VerifSnapshot().Offset)
					if a, b := S.S.VerifTryLocks(); a && b {
						S.Close()
					} else {
						S.Abandon()
					}
					world.StopAllLeaked()
					os.RemoveAll(dir)
				}
				if registered {
					if code, _, err := S.Register(gca.Pub, temp); err != nil || code != 200 {
						cleanup()
						t.Fatalf("C14: registration failed")
					}
					for i := 0; i < nDev; i++ {
						if err := c14Bursts()[0].run(S, st); err != nil {
							cleanup()
							t.Fatalf("C14: %v", err)
						}
					}
					if nDev > 0 {
						for i := 0; i < nRep; i++ {
							c14Bursts()[4].run(S, st)
						}
					}
					if nDev > 0 && bannedSlot {
						S.SendUDP(ref.SignedReport(keyFor("c14-dev-1"), 1001, 100, 51).Encode())
					}
					if withWeek {
						c14Bursts()[2].run(S, st)
						glow.SetCurrentTimeslot(S.VerifSnapshot().Offset + 100)
					}
				}
				fired := false
				var burstErr error
				var once sync.Once
				server.VerifOn(point, func(g *server.GCAServer, name string) {
					once.Do(func() {
						fired = true
						server.VerifOn(point, nil)
						burstErr = burst.run(S, st)
					})
				})
				desc := fmt.Sprintf("registered=%v devices=%d week=%v reports=%d bannedSlot=%v | gap %s | burst %s", registered, nDev, withWeek, nRep, bannedSlot, strings.TrimPrefix(point, "yield:archive:before:"), burst.name)
				lastCase(desc)
				code, body, err := getArchive(S)
				server.VerifOn(point, nil)
				if ps := server.VerifPanics(); len(ps) > 0 {
					cleanup()
					t.Fatalf("C14: %s: panic: %s: %s", desc, ps[0].Where, ps[0].Value)
				}
				if err != nil {
					cleanup()
					t.Fatalf("C14: %s: archive request failed: %v", desc, err)
				}
				if burstErr != nil {
					cleanup()
					t.Fatalf("C14: %s: %v", desc, burstErr)
				}
				ev.Eval(1)
				cells++
				if code == 200 {
					a, err := parseArchive(body)
					if err != nil {
						cleanup()
						t.Fatalf("C14: %s: the archive is not a valid zip: %v", desc, err)
					}
					snap := S.VerifSnapshot()
					if why := checkArchive(a, dir, [32]byte(snap.ServerPriv), [32]byte(snap.ServerPub), true); why != "" {
						cleanup()
						t.Fatalf("C14: %s: %s", desc, why)
					}
					if fired {
						ev.NonTrivial("c14|" + desc)
						ev.Label("c14:burst-landed-in-gap")
						if cells%17 == 0 {
							ev.Sample("c14:gap-cell", map[string]interface{}{"cell": desc, "archive_bytes": len(body), "entries": a.order})
						}
					}
				} else {
					ev.Label(fmt.Sprintf("c14:archive-status-%d", code))
				}
				cleanup()
				time.Sleep(21 * time.Millisecond) // stay below the archive rate limit across cells (fresh server per cell anyway)
			}
		}
	})
	ev.Exhaustive("c14: full (gap x burst) matrix per generated state")
}

func TestC14ConcurrentWriters(t *testing.T) {
	ev.Rule("C14(2): archives requested repeatedly while 2-6 goroutines authorize devices and send reports; oracle: prefix of the final files, dependency closure over complete records, signatures, no private key material (record alignment is not asserted under true concurrency)")
	rapid.Check(t, func(t *rapid.T) {
		server.VerifSetStepping(false)
		defer server.VerifSetStepping(true)
		temp, gca := keyFor("temp"), keyFor("gca")
		glow.SetCurrentTimeslot(500)
		dir := world.NewServerDir(temp.Pub)
		defer os.RemoveAll(dir)
		S, err := world.StartServer(dir)
		if err != nil {
			t.Fatalf("C14: start: %v", err)
		}
		defer func() {
			if a, b := S.S.VerifTryLocks(); a && b {
				S.Close()
			} else {
				S.Abandon()
			}
			world.StopAllLeaked()
			glow.SetCurrentTimeslot(0)
		}()
		S.Register(gca.Pub, temp)
		st := &c14State{gca: gca, temp: temp}
		writers := rapid.IntRange(2, 6).Draw(t, "writers")
		perWriter := rapid.IntRange(3, 10).Draw(t, "perWriter")
		var wg sync.WaitGroup
		stop := make(chan struct{})
		for w := 0; w < writers; w++ {
			wg.Add(1)
			go func() {
				defer wg.Done()
				for i := 0; i < perWriter; i++ {
					select {
					case <-stop:
						return
					default:
					}
					n := st.next()
					k := keyFor(fmt.Sprintf("c14-dev-%d", n%200))
					a := ref.Auth{ShortID: uint32(1000 + n), PublicKey: k.Pub, Capacity: 1 << 30}
					a.PublicKey[31] ^= byte(n)
					a.Sig = ref.Sign(gca, a.SigningBytes())
					S.Authorize(a)
				}
			}()
		}
		var archives [][]byte
		for i := 0; i < 6; i++ {
			code, body, err := getArchive(S)
			if err != nil {
				close(stop)
				wg.Wait()
				t.Fatalf("C14: archive request failed: %v", err)
			}
			if code == 200 {
				archives = append(archives, body)
			}
			time.Sleep(25 * time.Millisecond)
		}
		close(stop)
		wg.Wait()
		snap := S.VerifSnapshot()
		ev.Eval(len(archives))
		for i, body := range archives {
			a, err := parseArchive(body)
			if err != nil {
				t.Fatalf("C14: archive %d is not a valid zip: %v", i, err)
			}
			if why := checkArchive(a, dir, [32]byte(snap.ServerPriv), [32]byte(snap.ServerPub), false); why != "" {
				t.Fatalf("C14: archive %d taken under concurrent writes: %s", i, why)
			}
			ev.NonTrivial(fmt.Sprintf("c14|conc|%d|%d|%d", writers, perWriter, len(a.files["equipment-authorizations.dat"])))
		}
		ev.Label("c14:concurrent-case")
	})
}

func TestC14RateLimit(t *testing.T) {
	ev.Rule("C14(3): bursts of 1-12 archive requests from 1-6 goroutines with drawn pacing against the configured limit (3 per 60 ms in this build); each request records monotonic [before, after]; oracle by interval arithmetic as in C19: a violation only if limit+1 successful archives certainly lie within one window, or a request was refused although fewer than limit successes can lie in its preceding window")
	lim := server.VerifConsts().ApiArchiveLimit
	win := server.VerifConsts().ApiArchiveRate
	server.VerifSetStepping(true)
	temp, gca := keyFor("temp"), keyFor("gca")
	glow.SetCurrentTimeslot(0)
	dir := world.NewServerDir(temp.Pub)
	defer os.RemoveAll(dir)
	S, err := world.StartServer(dir)
	if err != nil {
		t.Fatal(err)
	}
	defer func() {
		S.Close()
		world.StopAllLeaked()
		os.RemoveAll(dir)
	}()
	S.Register(gca.Pub, temp)
	born := time.Now()
	rapid.Check(t, func(t *rapid.T) {
		// a server of the test build ends the process after 120 s of life: take a fresh one in time
		if time.Since(born) > fixtureMaxAge {
			S.Close()
			os.RemoveAll(dir)
			dir = world.NewServerDir(temp.Pub)
			if S, err = world.StartServer(dir); err != nil {
				t.Fatalf("C14: fresh server: %v", err)
			}
			S.Register(gca.Pub, temp)
			born = time.Now()
		}
		time.Sleep(win + 5*time.Millisecond) // start every case with an empty window
		if rapid.IntRange(0, 2).Draw(t, "staggered") == 0 {
			// one early request, limit-1 shortly before it expires, limit+1 shortly after
			start := time.Now()
			var calls []rlCall
			one := func() {
				b := time.Since(start)
				code, body, err := getArchive(S)
				a := time.Since(start)
				if err == nil && code != 200 && carriesArchive(body) {
					t.Fatalf("C14: a request answered %d (not served) carries an archive in its body (%d bytes)", code, len(body))
				}
				if err == nil && (code == 200 || code == 429) {
					calls = append(calls, rlCall{before: b, after: a, ok: code == 200})
				}
			}
			one()
			time.Sleep(win * 70 / 100)
			for i := 0; i < lim-1; i++ {
				one()
			}
			time.Sleep(win * 35 / 100)
			for i := 0; i < lim+1; i++ {
				one()
			}
			ev.Eval(len(calls))
			if v := rlJudge(lim, win, calls); v != "" {
				t.Fatalf("C14: archive rate limit (%d per %v), staggered requests: %s", lim, win, v)
			}
			ev.NonTrivial(fmt.Sprintf("c14|rate|staggered|%d", len(calls)))
			ev.Label("c14:rate-staggered")
			return
		}
		workers := rapid.IntRange(1, 6).Draw(t, "goroutines")
		per := rapid.IntRange(1, 12).Draw(t, "requests")
		pace := rapid.SampledFrom([]time.Duration{0, time.Millisecond, 5 * time.Millisecond, 19 * time.Millisecond, 21 * time.Millisecond, 35 * time.Millisecond}).Draw(t, "pace")
		start := time.Now()
		var mu sync.Mutex
		var calls []rlCall
		var wg sync.WaitGroup
		leaked := make(chan string, 1)
		for g := 0; g < workers; g++ {
			wg.Add(1)
			go func(g int) {
				defer wg.Done()
				for i := 0; i < per; i++ {
					b := time.Since(start)
					code, body, err := getArchive(S)
					a := time.Since(start)
					if err == nil && code != 200 && carriesArchive(body) {
						select {
						case leaked <- fmt.Sprintf("a request answered %d (not served) carries an archive in its body (%d bytes)", code, len(body)):
						default:
						}
					}
					if err == nil && (code == 200 || code == 429) {
						mu.Lock()
						calls = append(calls, rlCall{before: b, after: a, ok: code == 200, g: g})
						mu.Unlock()
					}
					time.Sleep(pace)
				}
			}(g)
		}
		wg.Wait()
		ev.Eval(len(calls))
		select {
		case why := <-leaked:
			t.Fatalf("C14: %s", why)
		default:
		}
		if v := rlJudge(lim, win, calls); v != "" {
			t.Fatalf("C14: archive rate limit (%d per %v): %s", lim, win, v)
		}
		rej := 0
		for _, c := range calls {
			if !c.ok {
				rej++
			}
		}
		if rej > 0 && rej < len(calls) {
			ev.NonTrivial(fmt.Sprintf("c14|rate|%d|%d|%v", workers, per, pace))
			ev.Label("c14:rate-case-with-rejections")
			ev.Sample("c14:rate", map[string]interface{}{"goroutines": workers, "requests_each": per, "pace": pace.String(), "served": len(calls) - rej, "refused": rej})
		}
	})
}
