//go:build test && verif

package props

// C20 - timeslot arithmetic is exact; the window is kept safe. This file is the
// main-build half (settable clock): conversions against the run-time genesis,
// acceptance at the uint32 extremes against the int64 predicate, and the
// measured rotation trigger / acceptance half-width combined with the
// production rotation period (handed over by the prod-build job) in the
// inequality trigger + period + 1 + half-width < window.

import (
	"encoding/json"
	"fmt"
	"math"
	"os"
	"path/filepath"
	"testing"
	"time"

	"github.com/glowlabs-org/gca-backend/glow"
	"github.com/glowlabs-org/gca-backend/server"
	"pgregory.net/rapid"

	"verif/harness/ev"
	"verif/harness/ref"
	"verif/harness/world"
)

func TestC20Conversions(t *testing.T) {
	ev.Rule("C20(a): UnixToTimeslot/TimeslotToUnix against an int64 reference at every slot boundary k<=14316557 (exhaustive: 3 points per slot) and random times incl. before genesis; refusal before genesis, round trip to slot start, monotonicity")
	g := int64(glow.GenesisTime)
	const maxSlot = int64(14316557)
	check := func(u int64) {
		if u >= g && u-g > 1<<32-1 {
			return // beyond genesis+2^32-1 seconds: outside the property's domain
		}
		got, err := glow.UnixToTimeslot(u)
		if u < g {
			if err == nil {
				t.Fatalf("C20: UnixToTimeslot(%d) accepted a time before genesis (returned %d)", u, got)
			}
			return
		}
		want := (u - g) / 300
		if err != nil || int64(got) != want {
			t.Fatalf("C20: UnixToTimeslot(G+%d) = %d,%v want %d", u-g, got, err, want)
		}
		if back := glow.TimeslotToUnix(got); back != g+300*want {
			t.Fatalf("C20: TimeslotToUnix(%d) = G%+d, want G+%d", got, back-g, 300*want)
		}
	}
	evals := 0
	for k := int64(0); k <= maxSlot; k++ {
		check(g + 300*k - 1)
		check(g + 300*k)
		check(g + 300*k + 299)
		evals += 3
	}
	// times so far before genesis that "time - genesis" wraps in 64 bits
	for _, u := range []int64{math.MinInt64, math.MinInt64 + 1, math.MinInt64 + g - 1, math.MinInt64 + g, math.MinInt64 + g + 1, -g, -1, 0, 1} {
		check(u)
		evals++
	}
	for k := int64(0); k < 200000; k++ {
		check(math.MinInt64 + k*(g/100000))
		evals++
	}
	ev.Exhaustive("c20:main:all slot boundaries k=0..14316557")
	ev.Eval(evals)
	ev.NonTrivial("c20|main|boundaries")
}

type c20Pair struct {
	Offset, Now, Slot uint32
	Power             uint64
}

// c20Top is the largest window offset whose whole two-week window is
// expressible in 32-bit timeslots (a multiple of 2016 with offset+4032 <= 2^32).
const c20Top = uint32(2016 * 2130438)

func TestC20AcceptanceNoWrap(t *testing.T) {
	ev.Rule("C20(c): two servers with the rotation loop gated: one with the window at offset 0, one whose window is the last one expressible in 32 bits (offset 4294963008, obtained from a data directory whose archive ends with that week label); rapid draws (server, now, slot) with now at the uint32 extremes (0..500, 2^31+-k, 2^32-1-k, around the top window) and slots inside and around the stored window, and slots a wrapped comparison would take for close, each as a validly signed report; oracle = int64 predicate |slot-now|<=432 and offset<=slot<offset+4032; non-trivial = pair within 1000 of a uint32 extreme; distinct by (offset, now, slot)")
	server.VerifSetStepping(true)
	defer server.VerifSetStepping(false)
	glow.SetCurrentTimeslot(0)
	temp := ref.KeyFromSeed([]byte("c20-temp"))
	gca := ref.KeyFromSeed([]byte("c20-gca"))
	dev := ref.KeyFromSeed([]byte("c20-dev"))
	a := ref.Auth{ShortID: 7, PublicKey: dev.Pub, Capacity: math.MaxUint64 / 200, Latitude: 1, Longitude: 2}
	a.Sig = ref.Sign(gca, a.SigningBytes())
	type c20srv struct {
		s    *world.Server
		off  uint32
		used map[uint32]bool
		born time.Time
	}
	var servers []*c20srv
	defer func() {
		glow.SetCurrentTimeslot(0)
		for _, x := range servers {
			x.s.Close()
			os.RemoveAll(x.s.Dir)
		}
		world.StopAllLeaked()
	}()
	// mk starts a registered server with one device whose window begins at off;
	// nil means that the server cannot be brought there (top window only).
	mk := func(off uint32) *c20srv {
		dir := world.NewServerDir(temp.Pub)
		if off != 0 {
			// the window offset is restored from the label of the last archived week
			w := ref.Week{Offset: off - 2016}
			if err := os.WriteFile(dir+"/allDeviceStats.dat", w.Encode(), 0644); err != nil {
				t.Fatal(err)
			}
			glow.SetCurrentTimeslot(off + 100)
		} else {
			glow.SetCurrentTimeslot(0)
		}
		s, err := world.StartServer(dir)
		if err != nil {
			if off != 0 {
				// a server that insists on an archive starting at week 0 cannot be
				// brought to the top of the range this way; that is not a violation
				ev.Label("c20:top-window-server-not-constructible")
				os.RemoveAll(dir)
				return nil
			}
			t.Fatal(err)
		}
		if s.S.VerifSnapshot().Offset != off {
			if off != 0 {
				ev.Label("c20:top-window-server-not-constructible")
				s.Close()
				os.RemoveAll(dir)
				return nil
			}
			t.Fatalf("C20: fresh server has offset %d", s.S.VerifSnapshot().Offset)
		}
		if st, body, err := s.Register(gca.Pub, temp); err != nil || st != 200 {
			t.Fatalf("register: %v %d %s", err, st, body)
		}
		if st, body, err := s.Authorize(a); err != nil || st != 200 {
			t.Fatalf("authorize: %v %d %s", err, st, body)
		}
		return &c20srv{s: s, off: off, used: map[uint32]bool{}, born: time.Now()}
	}
	for _, off := range []uint32{0, c20Top} {
		if x := mk(off); x != nil {
			servers = append(servers, x)
		}
	}
	rapid.Check(t, func(t *rapid.T) {
		x := servers[rapid.IntRange(0, len(servers)-1).Draw(t, "server")]
		// a server of the test build ends the process after 120 s of life: take a fresh one in time
		if time.Since(x.born) > fixtureMaxAge {
			glow.SetCurrentTimeslot(x.off)
			x.s.Close()
			os.RemoveAll(x.s.Dir)
			if y := mk(x.off); y != nil {
				*x = *y
			} else {
				t.Fatalf("C20: the server for offset %d could be started once but not again", x.off)
			}
		}
		s, off, used := x.s, x.off, x.used
		var now uint32
		switch rapid.IntRange(0, 5).Draw(t, "nowClass") {
		case 0:
			now = rapid.Uint32Range(0, 500).Draw(t, "now")
		case 1:
			now = math.MaxUint32 - rapid.Uint32Range(0, 500).Draw(t, "nowFromTop")
		case 2:
			now = 1<<31 - 250 + rapid.Uint32Range(0, 500).Draw(t, "nowMid")
		case 3:
			now = off + rapid.Uint32Range(3600, 4500).Draw(t, "nowEdge") // wraps for the top window: fine, any value is a clock value
		case 4:
			now = off - 500 + rapid.Uint32Range(0, 4800).Draw(t, "nowAroundWindow")
		default:
			now = rapid.Uint32().Draw(t, "nowAny")
		}
		var slot uint32
		switch rapid.IntRange(0, 4).Draw(t, "slotClass") {
		case 0:
			slot = off + rapid.Uint32Range(0, 4031).Draw(t, "slot")
		case 1:
			// the slot a wrapped uint32 comparison would consider close
			slot = now + rapid.Uint32Range(0, 864).Draw(t, "d") - 432
		case 2:
			slot = off - 300 + rapid.Uint32Range(0, 4800).Draw(t, "slotEdge")
		case 3:
			// inside the window and within reach of the clock, if there is such a slot
			slot = now + rapid.Uint32Range(0, 864).Draw(t, "dIn") - 432
			if int64(slot) < int64(off) || int64(slot) >= int64(off)+4032 {
				slot = off + rapid.Uint32Range(0, 4031).Draw(t, "slotIn")
			}
		default:
			slot = rapid.Uint32().Draw(t, "slotAny")
		}
		p := c20Pair{Offset: off, Now: now, Slot: slot, Power: 100 + uint64(rapid.Uint32Range(0, 1000).Draw(t, "power"))}
		lastCase(p)
		ev.Eval(1)
		glow.SetCurrentTimeslot(now)
		before := s.S.VerifSnapshot()
		if before.Offset != off {
			t.Fatalf("C20: harness assumption broken: offset moved from %d to %d without a granted step", off, before.Offset)
		}
		r := ref.SignedReport(dev, 7, slot, p.Power)
		if err := s.SendUDP(r.Encode()); err != nil {
			t.Fatalf("C20: %v (panics: %+v)", err, server.VerifPanics())
		}
		if ps := server.VerifPanics(); len(ps) > 0 {
			t.Fatalf("C20: server panicked on offset=%d now=%d slot=%d: %+v", off, now, slot, ps)
		}
		after := s.S.VerifSnapshot()
		dist := int64(slot) - int64(now)
		if dist < 0 {
			dist = -dist
		}
		inWindow := int64(slot) >= int64(off) && int64(slot) < int64(off)+4032
		wantAccept := dist <= 432 && inWindow && !used[slot]
		var changed bool
		if inWindow {
			changed = after.Reports[7][slot-off] != before.Reports[7][slot-off]
		}
		total := 0
		for i := range after.Reports[7] {
			if after.Reports[7][i] != before.Reports[7][i] {
				total++
			}
		}
		if wantAccept {
			if !changed || total != 1 || after.Reports[7][slot-off].PowerOutput != p.Power {
				t.Fatalf("C20: offset=%d now=%d slot=%d (distance %d, inside window): report must be recorded; changed=%v slotsChanged=%d", off, now, slot, dist, changed, total)
			}
			used[slot] = true
		} else if !used[slot] || !inWindow {
			if total != 0 {
				t.Fatalf("C20: offset=%d now=%d slot=%d (distance %d): report must be ignored but %d slot(s) changed - wrap-around in the window comparison?", off, now, slot, dist, total)
			}
		}
		extreme := now <= 1000 || now >= math.MaxUint32-1000 || slot >= math.MaxUint32-1000
		if extreme {
			ev.NonTrivial(fmt.Sprintf("c20|pair|%d|%d|%d", off, now, slot))
			ev.Label("c20:pair-at-uint32-extreme")
			if wantAccept {
				ev.Sample("c20:accepted-at-extreme", p)
			} else {
				ev.Sample("c20:rejected-at-extreme", p)
			}
		}
		if wantAccept {
			ev.Label("c20:pair-accepted")
			if off != 0 {
				ev.Label("c20:pair-accepted-in-top-window")
			}
		}
	})
}

// TestC20WindowSafety measures the effective rotation trigger T (largest
// now-offset at which a granted rotation step does not rotate) and the
// effective acceptance half-width W (largest accepted |slot-now|) on the real
// server, and checks T + P + 1 + W < 4032 with P the production rotation-check
// period in timeslots.
func TestC20WindowSafety(t *testing.T) {
	ev.Rule("C20(d): generated gaps g (dense within 5 of the trigger, random elsewhere): clock = offset+g, one granted step of the rotation loop, observe whether the window moved -> effective trigger T (and the same threshold on servers without any equipment, unregistered and registered); generated distances d -> effective half-width W; P = ceil(production ReportMigrationFrequency / 300 s) from the prod-build job; check T+P+1+W < 4032, and at the other end of the window that neither the loop nor the catch-up at start-up (measured by restarting at drawn gaps) rotates while a report the clock rule still admits belongs to the closing week (smallest rotating gap - W >= 2016); non-trivial = gap within 5 of T or of 2016+W, or distance within 5 of W")
	server.VerifSetStepping(true)
	defer server.VerifSetStepping(false)
	glow.SetCurrentTimeslot(0)
	temp := ref.KeyFromSeed([]byte("c20d-temp"))
	gca := ref.KeyFromSeed([]byte("c20d-gca"))
	dev := ref.KeyFromSeed([]byte("c20d-dev"))
	dir := world.NewServerDir(temp.Pub)
	defer os.RemoveAll(dir)
	s, err := world.StartServer(dir)
	if err != nil {
		t.Fatal(err)
	}
	defer func() {
		glow.SetCurrentTimeslot(0)
		s.Close()
		world.StopAllLeaked()
	}()
	if st, _, err := s.Register(gca.Pub, temp); err != nil || st != 200 {
		t.Fatalf("register failed")
	}
	a := ref.Auth{ShortID: 9, PublicKey: dev.Pub, Capacity: 1 << 50}
	a.Sig = ref.Sign(gca, a.SigningBytes())
	if st, _, err := s.Authorize(a); err != nil || st != 200 {
		t.Fatalf("authorize failed")
	}
	maxNoRot, minRot := int64(-1), int64(1<<40)
	gaps := []int64{0, 1, 2015, 2016, 2017, 3195, 3196, 3197, 3198, 3199, 3200, 3201, 3202, 3203, 3204, 3205, 3599, 3600, 3601, 3999}
	// every granted step costs one sleep of the rotation loop (100 ms in this
	// build), so the number of random gaps is bounded
	extra := rapid.SliceOfN(rapid.Int64Range(0, 3999), pick(25, 200), pick(25, 200)).Example(int(seedFromEnv()))
	gaps = append(gaps, extra...)
	for _, g := range gaps {
		off := int64(s.S.VerifSnapshot().Offset)
		glow.SetCurrentTimeslot(uint32(off + g))
		if !world.Step(s.S, "migrate") {
			t.Fatalf("C20: rotation loop did not take the granted step")
		}
		if ps := server.VerifPanics(); len(ps) > 0 {
			t.Fatalf("C20: panic during rotation step: %+v", ps)
		}
		off2 := int64(s.S.VerifSnapshot().Offset)
		ev.Eval(1)
		switch off2 - off {
		case 0:
			if g > maxNoRot {
				maxNoRot = g
			}
		case 2016:
			if g < minRot {
				minRot = g
			}
		default:
			t.Fatalf("C20: one rotation step moved the window by %d", off2-off)
		}
	}
	if minRot != maxNoRot+1 {
		t.Fatalf("C20: rotation trigger is not a threshold: largest gap without rotation %d, smallest with rotation %d", maxNoRot, minRot)
	}
	T := maxNoRot
	// The cadence must not depend on what the server holds: a server without any
	// equipment (registered or not) rotates at the same gaps, so that the window
	// is where the clock is when the first device arrives.
	for _, registered := range []bool{false, true} {
		d2 := world.NewServerDir(temp.Pub)
		off0 := int64(s.S.VerifSnapshot().Offset)
		glow.SetCurrentTimeslot(uint32(off0))
		e, err := world.StartServer(d2)
		if err != nil {
			t.Fatal(err)
		}
		if registered {
			if st, _, err := e.Register(gca.Pub, temp); err != nil || st != 200 {
				t.Fatalf("register failed")
			}
		}
		for _, g := range []int64{T, T + 1, T - 1, 3999, T + 1, 0} {
			off := int64(e.S.VerifSnapshot().Offset)
			glow.SetCurrentTimeslot(uint32(off + g))
			if !world.Step(e.S, "migrate") {
				t.Fatalf("C20: rotation loop of a server without equipment did not take the granted step")
			}
			moved := int64(e.S.VerifSnapshot().Offset) - off
			ev.Eval(1)
			if want := map[bool]int64{false: 0, true: 2016}[g > T]; moved != want {
				glow.SetCurrentTimeslot(uint32(off))
				e.Close()
				os.RemoveAll(d2)
				t.Fatalf("C20: a server without equipment (registered=%v) moved its window by %d at now-offset = %d; with a device the trigger is %d", registered, moved, g, T)
			}
			ev.NonTrivial(fmt.Sprintf("c20|idle|%v|%d", registered, g))
		}
		// the device that arrives now reports for the current slot
		off := e.S.VerifSnapshot().Offset
		glow.SetCurrentTimeslot(off + 5)
		if registered {
			if st, _, err := e.Authorize(a); err != nil || st != 200 {
				t.Fatalf("authorize failed")
			}
			if err := e.SendUDP(ref.SignedReport(dev, 9, off+5, 77).Encode()); err != nil {
				t.Fatal(err)
			}
			if got := e.S.VerifSnapshot().Reports[9][5].PowerOutput; got != 77 {
				t.Fatalf("C20: the first device of a server that had idled through rotations reports for the current slot and the server holds %d", got)
			}
		}
		glow.SetCurrentTimeslot(off)
		e.Close()
		os.RemoveAll(d2)
		glow.SetCurrentTimeslot(uint32(off0))
	}
	for _, g := range gaps {
		if g >= T-5 && g <= T+5 {
			ev.NonTrivial(fmt.Sprintf("c20|gap|%d", g))
		}
	}
	// half-width
	off := s.S.VerifSnapshot().Offset
	now := off + 1000
	glow.SetCurrentTimeslot(now)
	maxAcc, minRej := int64(-1), int64(1<<40)
	pw := uint64(1000)
	for d := int64(420); d <= 445; d++ {
		for _, sign := range []int64{-1, 1} {
			slot := uint32(int64(now) + sign*d)
			before := s.S.VerifSnapshot().Reports[9][slot-off]
			if before.PowerOutput != 0 {
				continue
			}
			pw++
			r := ref.SignedReport(dev, 9, slot, pw)
			if err := s.SendUDP(r.Encode()); err != nil {
				t.Fatal(err)
			}
			ev.Eval(1)
			acc := s.S.VerifSnapshot().Reports[9][slot-off].PowerOutput == pw
			if acc && d > maxAcc {
				maxAcc = d
			}
			if !acc && d < minRej {
				minRej = d
			}
			ev.NonTrivial(fmt.Sprintf("c20|dist|%d|%d", sign, d))
		}
	}
	if minRej != maxAcc+1 {
		t.Fatalf("C20: acceptance half-width is not a threshold: largest accepted distance %d, smallest rejected %d", maxAcc, minRej)
	}
	W := maxAcc
	// production period
	P := int64(-1)
	src := "prod-build job"
	if dir := os.Getenv("VERIF_SHARED"); dir != "" {
		if b, err := os.ReadFile(filepath.Join(dir, "prod_consts.json")); err == nil {
			var c map[string]interface{}
			if json.Unmarshal(b, &c) == nil {
				if f, ok := c["report_migration_frequency_s"].(float64); ok {
					P = int64(math.Ceil(f / 300))
				}
			}
		}
	}
	if P < 0 {
		t.Fatalf("C20: production constants not available (the prod-build job must run first)")
	}
	ev.Set("c20_trigger_T", T)
	ev.Set("c20_halfwidth_W", W)
	ev.Set("c20_period_P_slots", P)
	ev.Sample("c20:window-safety", map[string]interface{}{"T": T, "P": P, "W": W, "sum": T + P + 1 + W, "window": 4032, "P_source": src})
	if T+P+1+W >= 4032 {
		t.Fatalf("C20: window not safe: trigger %d + period %d + 1 + half-width %d = %d >= 4032", T, P, W, T+P+1+W)
	}
	if W != 432 {
		t.Fatalf("C20: acceptance half-width measured %d, the protocol documents 432 (72 h)", W)
	}
	// The other end: a rotation must not take place while a report the clock
	// rule still admits (down to now-W) belongs to the week that is closed -
	// after a rotation at gap g the window starts at offset+2016, so g-W >= 2016.
	if minRot-W < 2016 {
		t.Fatalf("C20: window not safe at its start: the loop rotates at now-offset = %d, reports down to now-%d are still admitted and would lie before the new window", minRot, W)
	}
	// The same for the catch-up at start-up: the server is restarted at drawn
	// gaps and the smallest gap at which a start rotates is measured.
	maxNoRotS, minRotS := int64(-1), int64(1<<40)
	startGaps := []int64{0, 2015, 2016, 2017, 2447, 2448, 2449, 3199, 3200, 3201, 3999, 4000, 4001, 4031}
	startGaps = append(startGaps, rapid.SliceOfN(rapid.Int64Range(2016, 4031), pick(6, 40), pick(6, 40)).Example(int(seedFromEnv())+1)...)
	for _, g := range startGaps {
		off := int64(s.S.VerifSnapshot().Offset)
		glow.SetCurrentTimeslot(uint32(off))
		if err := s.Close(); err != nil {
			t.Fatalf("C20: close: %v", err)
		}
		glow.SetCurrentTimeslot(uint32(off + g))
		if s, err = world.StartServer(dir); err != nil {
			t.Fatalf("C20: restart at now-offset = %d: %v", g, err)
		}
		ev.Eval(1)
		switch off2 := int64(s.S.VerifSnapshot().Offset); off2 - off {
		case 0:
			if g > maxNoRotS {
				maxNoRotS = g
			}
		case 2016:
			if g < minRotS {
				minRotS = g
			}
		default:
			t.Fatalf("C20: a start at now-offset = %d moved the window by %d", g, off2-off)
		}
		if g >= 2016+W-5 && g <= 2016+W+5 {
			ev.NonTrivial(fmt.Sprintf("c20|startgap|%d", g))
		}
	}
	if minRotS <= maxNoRotS {
		t.Fatalf("C20: start-up catch-up is not a threshold: largest gap without rotation %d, smallest with rotation %d", maxNoRotS, minRotS)
	}
	ev.Set("c20_startup_rotates_from", minRotS)
	if minRotS-W < 2016 {
		t.Fatalf("C20: window not safe at its start: a server started at now-offset = %d rotates, reports down to now-%d are still admitted and would lie before the new window", minRotS, W)
	}
	// after a long downtime (weeks to years) the start must bring the window all
	// the way up to the clock, whole weeks at a time
	for _, weeks := range []int64{3, 5, 8, 40, int64(pick(60, 300))} {
		off := int64(s.S.VerifSnapshot().Offset)
		glow.SetCurrentTimeslot(uint32(off))
		if err := s.Close(); err != nil {
			t.Fatalf("C20: close: %v", err)
		}
		now := off + 2016*weeks + 100 + int64(weeks%7)*250
		glow.SetCurrentTimeslot(uint32(now))
		if s, err = world.StartServer(dir); err != nil {
			t.Fatalf("C20: restart %d weeks later: %v", weeks, err)
		}
		ev.Eval(1)
		off2 := int64(s.S.VerifSnapshot().Offset)
		if (off2-off)%2016 != 0 || now-off2 >= 4000 || now < off2 {
			t.Fatalf("C20: a server started %d weeks (%d slots) after its window start has its window at %d, clock %d: now-offset = %d, the catch-up must end within 4000 slots of the clock", weeks, now-off, off2, now, now-off2)
		}
		if now-off2-W < 0 && off2 != off {
			t.Fatalf("C20: catch-up at start went too far: window starts at %d, reports down to %d are still admitted", off2, now-W)
		}
		ev.NonTrivial(fmt.Sprintf("c20|downtime|%d", weeks))
	}
	if maxNoRotS+P+1+W >= 4032+2016 {
		// a start that does not catch up leaves the loop to do it; the first check comes at once
		t.Fatalf("C20: a server started at now-offset = %d does not catch up", maxNoRotS)
	}
}
