//go:build test && verif

package props

// C09 - a device never signs two different reports for the same timeslot.
// (a) the history store against a map model; (b) wire level: the energy file
// evolves by random edits, interleaved with reporting ticks and client
// restarts; a UDP sink records every datagram; a reference of the tick rule
// (first accepted reading per slot wins, only slots newer than the last
// reported one are sent) predicts the emissions.

import (
	"encoding/binary"
	"fmt"
	"math"
	"os"
	"path/filepath"
	"strconv"
	"strings"
	"testing"

	"github.com/glowlabs-org/gca-backend/client"
	"github.com/glowlabs-org/gca-backend/glow"
	"pgregory.net/rapid"

	"verif/harness/ev"
	"verif/harness/ref"
	"verif/harness/world"
)

const maxHistorySlot = 14316557 // largest value UnixToTimeslot can return

func c09Client(origin uint32, energy string, sink *world.UDPSink, cal *string) (*client.Client, string, error) {
	client.VerifSetStepping(true)
	port := uint16(9)
	if sink != nil {
		port = sink.Port
	}
	cfg := world.ClientCfg{Key: keyFor("c09-dev"), GCA: keyFor("gca").Pub, ShortID: 77, HistoryOffset: origin, Energy: energy, CT: cal,
		Servers: map[[32]byte]ref.ClientServer{keyFor("c09-srv").Pub: {Location: "127.0.0.1", HttpPort: 1, TcpPort: 1, UdpPort: port}}}
	dir := world.NewClientDir(cfg)
	c, err := world.StartClient(dir)
	return c, dir, err
}

func TestC09HistoryStore(t *testing.T) {
	ev.Rule("C09(a): rapid state machine on the client's history store (save(t,v), load(t), reopen) with a drawn origin, t in {below origin, origin, origin+small, far up to 14316557} and v in {0,1,2,random,2^32-1}; oracle = map model: saves below the origin are refused, an equal value or an empty slot accepts, anything else is refused and changes nothing, every load returns the model value, history.dat is the 4-byte origin followed by 4 little-endian bytes per slot; non-trivial = history with a save onto an occupied slot or far beyond the end; distinct by history")
	rapid.Check(t, func(t *rapid.T) {
		ev.Eval(1)
		origin := rapid.SampledFrom([]uint32{0, 1, 1000, 300000, maxHistorySlot - 10}).Draw(t, "origin")
		c, dir, err := c09Client(origin, "timestamp,energy (mWh)\n", nil, nil)
		if err != nil {
			t.Fatalf("C09: NewClient: %v", err)
		}
		defer os.RemoveAll(dir)
		defer world.StopAllLeakedClients()
		defer func() { world.CloseClient(c) }()
		model := map[uint32]uint32{}
		var hist []string
		nontrivial := false
		drawT := func(t *rapid.T) uint32 {
			switch rapid.IntRange(0, 4).Draw(t, "tClass") {
			case 0:
				if origin == 0 {
					return 0
				}
				return origin - 1 - rapid.Uint32Range(0, origin-1).Draw(t, "below")
			case 1:
				return origin
			case 2, 3:
				return origin + rapid.Uint32Range(0, 6).Draw(t, "small")
			default:
				v := origin + rapid.Uint32Range(7, maxHistorySlot).Draw(t, "far")
				if v > maxHistorySlot || v < origin {
					v = maxHistorySlot
				}
				return v
			}
		}
		drawV := func(t *rapid.T) uint32 {
			return rapid.SampledFrom([]uint32{0, 1, 2, 3, math.MaxUint32, 1 << 31, rapid.Uint32().Draw(t, "v")}).Draw(t, "vPick")
		}
		checkLoad := func(ts uint32) {
			got, err := c.VerifLoadReading(ts)
			want := uint32(0)
			if ts >= origin {
				want = model[ts]
			}
			if err != nil || got != want {
				t.Fatalf("C09: load(%d) = %d,%v, stored %d (origin %d); history %v", ts, got, err, want, origin, hist)
			}
		}
		t.Repeat(map[string]func(*rapid.T){
			"save": func(t *rapid.T) {
				ts, v := drawT(t), drawV(t)
				hist = append(hist, fmt.Sprintf("save(%d,%d)", ts, v))
				err := c.VerifSaveReading(ts, v)
				cur, occupied := model[ts]
				switch {
				case ts < origin:
					if err == nil {
						t.Fatalf("C09: save(%d,%d) below the origin %d accepted; history %v", ts, v, origin, hist)
					}
				case cur == v || (!occupied && v == 0):
					if err != nil {
						t.Fatalf("C09: save(%d,%d) of the stored value refused: %v; history %v", ts, v, err, hist)
					}
				case occupied && cur != 0:
					nontrivial = true
					if err == nil {
						t.Fatalf("C09: save(%d,%d) onto a slot holding %d accepted; history %v", ts, v, cur, hist)
					}
				default:
					if err != nil {
						t.Fatalf("C09: save(%d,%d) onto an empty slot refused: %v; history %v", ts, v, err, hist)
					}
					if v != 0 {
						model[ts] = v
					}
					if ts > origin+1000 {
						nontrivial = true
					}
				}
				checkLoad(ts)
				if ts > 0 {
					checkLoad(ts - 1)
				}
				checkLoad(ts + 1)
			},
			"load": func(t *rapid.T) {
				ts := drawT(t)
				hist = append(hist, fmt.Sprintf("load(%d)", ts))
				checkLoad(ts)
			},
			"reopen": func(t *rapid.T) {
				hist = append(hist, "reopen")
				if err := world.CloseClient(c); err != nil {
					t.Fatalf("C09: close: %v", err)
				}
				c, err = world.StartClient(dir)
				if err != nil {
					t.Fatalf("C09: reopen: %v", err)
				}
				if c.VerifState().HistoryOffset != origin {
					t.Fatalf("C09: history origin changed across reopen")
				}
				for ts := range model {
					checkLoad(ts)
				}
			},
		})
		// file layout
		for ts := range model {
			checkLoad(ts)
		}
		f, err := os.Open(filepath.Join(dir, "history.dat"))
		if err != nil {
			t.Fatal(err)
		}
		defer f.Close()
		var b [4]byte
		f.ReadAt(b[:], 0)
		if binary.LittleEndian.Uint32(b[:]) != origin {
			t.Fatalf("C09: history.dat does not start with the origin")
		}
		maxT := uint32(0)
		any := false
		for ts, v := range model {
			if _, err := f.ReadAt(b[:], int64(4)*int64(1+ts-origin)); err != nil || binary.LittleEndian.Uint32(b[:]) != v {
				t.Fatalf("C09: history.dat does not hold %d at the position of slot %d", v, ts)
			}
			if ts >= maxT {
				maxT = ts
				any = true
			}
		}
		fi, _ := f.Stat()
		want := int64(4)
		if any {
			want = 4 * int64(2+maxT-origin)
		}
		if fi.Size() != want {
			t.Fatalf("C09: history.dat is %d bytes, layout gives %d", fi.Size(), want)
		}
		if nontrivial {
			ev.NonTrivial(fmt.Sprintf("c09a|%d|%v", origin, hist))
			ev.Label("c09:store-nontrivial")
			ev.Sample("c09:store-history", map[string]interface{}{"origin": origin, "history": hist})
		}
	})
}

// ---- (b) wire level --------------------------------------------------------

type c09Row struct {
	slot uint32
	lit  string // value column as written
	bad  string // non-empty: a malformed row (the text itself)
}

func (r c09Row) text(g int64) string {
	if r.bad != "" {
		return r.bad
	}
	return fmt.Sprintf("%d,%s", g+300*int64(r.slot)+7, r.lit)
}

// c09Value applies the reading rules (C16) to a literal; ok=false if the row
// yields no record.
func c09Value(lit string, m, d float64) uint64 {
	x, err := strconv.ParseFloat(lit, 64)
	if err != nil {
		return 3
	}
	if x > -24 && x < 24 {
		return 2
	}
	v, _ := c16Scaled(x, m, d)
	return v
}

type c09Ref struct {
	hist   map[uint32]uint32 // 32-bit history store
	first  map[uint32]uint64 // value of the first stored (non-zero) reading per slot
	latest uint32
}

// tick applies the reporting rule to the visible rows; returns the expected emissions.
func (r *c09Ref) process(rows []c09Row, m, d float64, send bool) (out [][2]uint64) {
	newLatest := r.latest
	for _, row := range rows {
		if row.bad != "" {
			break // the reader stops at the first malformed row
		}
		e := c09Value(row.lit, m, d)
		v32 := uint32(e)
		cur := r.hist[row.slot]
		if cur != v32 && cur != 0 {
			// refused reading: never sent; while running, the slot still counts
			// as seen (only start-up ignores refused rows for that purpose)
			if send && row.slot > newLatest {
				newLatest = row.slot
			}
			continue
		}
		if cur == 0 && v32 != 0 {
			r.hist[row.slot] = v32
			r.first[row.slot] = e
		}
		if send && row.slot > r.latest {
			out = append(out, [2]uint64{uint64(row.slot), e})
		}
		if row.slot > newLatest {
			newLatest = row.slot
		}
	}
	r.latest = newLatest
	return out
}

func TestC09Wire(t *testing.T) {
	ev.Rule("C09(b): rapid state machine over the energy file (append rows for new or old slots, rewrite a value, duplicate a row with another value, reorder, insert a malformed row, remove rows), reporting ticks and client restarts, with a UDP sink recording every datagram; oracle: reference of the tick rule predicts the exact emissions of every tick (none at start-up), and over the whole history all datagrams for one slot with a power other than 0/1 are byte-identical and carry the value of the first stored reading; scaled values stay within 32 signed bits except in a small separate class that exercises known finding KF-C09-1; non-trivial = a slot sees two different values over time, or a restart lies between two readings of one slot; distinct by history")
	g := int64(glow.GenesisTime)
	rapid.Check(t, func(t *rapid.T) {
		ev.Eval(1)
		var cal *string
		m, d := client.VerifConsts().DefaultMultiplier, client.VerifConsts().DefaultDivider
		switch rapid.IntRange(0, 5).Draw(t, "cal") {
		case 0, 1:
			s := "-2\n1\n"
			cal, m, d = &s, -2, 1
		case 2:
			// a ratio so small that ordinary readings scale to 0 and 1 (values the
			// server ignores; 0 is also what the history keeps for "no reading")
			s := "1\n1000\n"
			cal, m, d = &s, 1, 1000
		}
		wideClass := rapid.IntRange(0, 19).Draw(t, "wideValueClass") == 0 // readings beyond 32 signed bits
		if wideClass && !isKnown("KF-C09-1") {
			// the class is only generated while the finding is listed; otherwise it is a plain violation class
		}
		sink := world.NewUDPSink()
		defer sink.Close()
		var rows []c09Row
		render := func() string {
			var sb strings.Builder
			sb.WriteString("timestamp,energy (mWh)\n")
			for _, r := range rows {
				sb.WriteString(r.text(g) + "\n")
			}
			return sb.String()
		}
		drawLit := func(t *rapid.T) string {
			if wideClass && rapid.IntRange(0, 2).Draw(t, "wide") == 0 {
				base := rapid.Int64Range(30, 100000).Draw(t, "wideBase")
				return strconv.FormatInt(base+int64(rapid.IntRange(1, 3).Draw(t, "wideK"))*(1<<32), 10)
			}
			switch rapid.IntRange(0, 5).Draw(t, "litClass") {
			case 0:
				return rapid.SampledFrom([]string{"0", "5", "-7.5", "23.9", "abc", ""}).Draw(t, "sentinelLit")
			case 1:
				return strconv.FormatInt(rapid.Int64Range(-1000000, 1000000).Draw(t, "intLit"), 10)
			default:
				return strconv.FormatFloat(rapid.Float64Range(-1e6, 1e6).Draw(t, "floatLit"), 'f', 3, 64)
			}
		}
		// initial file
		for i, n := 0, rapid.IntRange(0, 3).Draw(t, "initialRows"); i < n; i++ {
			rows = append(rows, c09Row{slot: uint32(1 + i), lit: drawLit(t)})
		}
		c, dir, err := c09Client(0, render(), sink, cal)
		if err != nil {
			t.Fatalf("C09: NewClient: %v", err)
		}
		defer os.RemoveAll(dir)
		defer world.StopAllLeakedClients()
		defer func() { world.CloseClient(c) }()
		refm := &c09Ref{hist: map[uint32]uint32{}, first: map[uint32]uint64{}}
		refm.process(rows, m, d, false) // start-up stores, never sends
		var hist []string
		seenVals := map[uint32]map[string]bool{}
		note := func() {
			for _, r := range rows {
				if r.bad != "" {
					continue
				}
				if seenVals[r.slot] == nil {
					seenVals[r.slot] = map[string]bool{}
				}
				seenVals[r.slot][r.lit] = true
			}
		}
		note()
		emitted := 0
		ticksSinceStart := 0
		nontrivial := false
		knownHit := false
		nextSlot := uint32(5)
		expectTick := func(what string) {
			want := refm.process(rows, m, d, true)
			if !world.Step(c, "tick") {
				t.Fatalf("C09: reporting loop did not take the granted tick (panics %+v); history %v", client.VerifPanics(), hist)
			}
			if ps := client.VerifPanics(); len(ps) > 0 {
				t.Fatalf("C09: client panicked: %s: %s; history %v", ps[0].Where, ps[0].Value, hist)
			}
			sink.WaitCount(emitted+len(want), 2e9)
			sink.Settle(2e6)
			all := sink.All()
			got := all[emitted:]
			if len(got) != len(want) {
				t.Fatalf("C09: %s emitted %d datagrams, the tick rule gives %d; history %v\nfile:\n%s", what, len(got), len(want), hist, render())
			}
			for i, b := range got {
				r, err := ref.DecodeReport(b)
				if err != nil || r.ShortID != 77 || uint64(r.Timeslot) != want[i][0] || r.Power != want[i][1] {
					t.Fatalf("C09: %s datagram %d is (slot %d, power %d), expected (slot %d, power %d); history %v", what, i, r.Timeslot, r.Power, want[i][0], want[i][1], hist)
				}
				if !ref.Verify(keyFor("c09-dev").Pub, r.SigningBytes(), r.Sig) {
					t.Fatalf("C09: datagram not signed by the device key")
				}
			}
			emitted = len(all)
		}
		t.Repeat(map[string]func(*rapid.T){
			"appendNew": func(t *rapid.T) {
				nextSlot += rapid.Uint32Range(1, 3).Draw(t, "gap")
				rows = append(rows, c09Row{slot: nextSlot, lit: drawLit(t)})
				hist = append(hist, fmt.Sprintf("append(slot %d, %s)", nextSlot, rows[len(rows)-1].lit))
			},
			"appendOld": func(t *rapid.T) {
				s := rapid.Uint32Range(1, nextSlot).Draw(t, "oldSlot")
				rows = append(rows, c09Row{slot: s, lit: drawLit(t)})
				hist = append(hist, fmt.Sprintf("append(old slot %d, %s)", s, rows[len(rows)-1].lit))
			},
			"rewrite": func(t *rapid.T) {
				if len(rows) == 0 {
					t.Skip("empty file")
				}
				i := rapid.IntRange(0, len(rows)-1).Draw(t, "row")
				if rows[i].bad != "" {
					t.Skip("malformed row")
				}
				rows[i].lit = drawLit(t)
				hist = append(hist, fmt.Sprintf("rewrite(row %d slot %d -> %s)", i, rows[i].slot, rows[i].lit))
			},
			"duplicate": func(t *rapid.T) {
				if len(rows) == 0 {
					t.Skip("empty file")
				}
				i := rapid.IntRange(0, len(rows)-1).Draw(t, "row")
				if rows[i].bad != "" {
					t.Skip("malformed row")
				}
				dup := c09Row{slot: rows[i].slot, lit: drawLit(t)}
				pos := rapid.IntRange(0, len(rows)).Draw(t, "pos")
				rows = append(rows[:pos], append([]c09Row{dup}, rows[pos:]...)...)
				hist = append(hist, fmt.Sprintf("duplicate(slot %d with %s at %d)", dup.slot, dup.lit, pos))
			},
			"reorder": func(t *rapid.T) {
				if len(rows) < 2 {
					t.Skip("too short")
				}
				rows = rapid.Permutation(rows).Draw(t, "perm")
				hist = append(hist, "reorder")
			},
			"malformed": func(t *rapid.T) {
				bad := rapid.SampledFrom([]string{"lonely", fmt.Sprintf("%d,1,2", g+300), fmt.Sprintf("%d,1\"0", g+600), fmt.Sprintf("%d", g+900)}).Draw(t, "bad")
				pos := rapid.IntRange(0, len(rows)).Draw(t, "pos")
				rows = append(rows[:pos], append([]c09Row{{bad: bad}}, rows[pos:]...)...)
				hist = append(hist, fmt.Sprintf("malformed(%q at %d)", bad, pos))
			},
			"remove": func(t *rapid.T) {
				if len(rows) == 0 {
					t.Skip("empty file")
				}
				i := rapid.IntRange(0, len(rows)-1).Draw(t, "row")
				hist = append(hist, fmt.Sprintf("remove(row %d)", i))
				rows = append(rows[:i], rows[i+1:]...)
			},
			"tick": func(t *rapid.T) {
				if ticksSinceStart >= 26 {
					t.Skip("tick budget used (after 30 ticks the client starts a sync round of its own)")
				}
				ticksSinceStart++
				world.WriteEnergy(dir, render())
				note()
				hist = append(hist, "tick")
				expectTick("tick")
			},
			"restart": func(t *rapid.T) {
				world.WriteEnergy(dir, render())
				note()
				hist = append(hist, "restart")
				if err := world.CloseClient(c); err != nil {
					t.Fatalf("C09: close: %v", err)
				}
				// closing releases the gate: the loop body may run once more
				sink.Settle(3e6)
				extra := sink.All()[emitted:]
				if len(extra) > 0 {
					want := refm.process(rows, m, d, true)
					if len(extra) != len(want) {
						t.Fatalf("C09: %d datagrams at shutdown, the tick rule allows 0 or %d; history %v", len(extra), len(want), hist)
					}
					emitted += len(extra)
				}
				c, err = world.StartClient(dir)
				if err != nil {
					t.Fatalf("C09: restart failed: %v; history %v", err, hist)
				}
				ticksSinceStart = 0
				// a restart re-reads the file, stores, and sends nothing; what was
				// sent before is forgotten (latest is recomputed from the file)
				refm.latest = 0
				refm.process(rows, m, d, false)
				sink.Settle(3e6)
				if n := len(sink.All()); n != emitted {
					t.Fatalf("C09: %d datagrams emitted at start-up, none expected; history %v", n-emitted, hist)
				}
				for s, vals := range seenVals {
					if len(vals) > 1 && refm.hist[s] != 0 {
						nontrivial = true
					}
				}
			},
		})
		// final tick so that everything visible is reported
		world.WriteEnergy(dir, render())
		note()
		hist = append(hist, "final tick")
		expectTick("final tick")
		// global invariant over everything ever emitted
		bySlot := map[uint32][][]byte{}
		for _, b := range sink.All() {
			r, _ := ref.DecodeReport(b)
			if r.Power == 0 || r.Power == 1 {
				continue
			}
			bySlot[r.Timeslot] = append(bySlot[r.Timeslot], b)
		}
		for s, list := range bySlot {
			for _, b := range list[1:] {
				if string(b) != string(list[0]) {
					r0, _ := ref.DecodeReport(list[0])
					r1, _ := ref.DecodeReport(b)
					if uint32(r0.Power) == uint32(r1.Power) && isKnown("KF-C09-1") {
						knownHit = true
						continue
					}
					t.Fatalf("C09: two different datagrams emitted for slot %d (powers %d and %d); history %v", s, r0.Power, r1.Power, hist)
				}
			}
			r0, _ := ref.DecodeReport(list[0])
			if want, ok := refm.first[s]; ok && want != r0.Power {
				if uint32(want) == uint32(r0.Power) && isKnown("KF-C09-1") {
					knownHit = true
				} else {
					t.Fatalf("C09: slot %d was reported with power %d, the first stored reading gives %d; history %v", s, r0.Power, want, hist)
				}
			}
		}
		for s, vals := range seenVals {
			if len(vals) > 1 && refm.hist[s] != 0 {
				nontrivial = true
			}
		}
		if knownHit {
			ev.Known("KF-C09-1")
		}
		if wideClass {
			ev.Label("c09:wide-value-class")
		} else {
			ev.Excluded("KF-C09-1")
		}
		if nontrivial {
			ev.NonTrivial(fmt.Sprintf("c09b|%v|%v", m, hist))
			ev.Label("c09:wire-nontrivial")
			ev.Sample("c09:wire-history", map[string]interface{}{"multiplier": m, "divider": d, "history": hist, "datagrams": emitted})
		}
	})
}

// TestC09KnownFinding replays the specific input of known finding KF-C09-1 on
// every run: two rows for one new slot whose scaled values differ by 2^32. The
// 32-bit history store considers them equal, so both are signed and sent.
func TestC09KnownFinding(t *testing.T) {
	g := int64(glow.GenesisTime)
	sink := world.NewUDPSink()
	defer sink.Close()
	c, dir, err := c09Client(0, "timestamp,energy (mWh)\n", sink, nil)
	if err != nil {
		t.Fatal(err)
	}
	defer os.RemoveAll(dir)
	defer world.StopAllLeakedClients()
	defer func() { world.CloseClient(c) }()
	world.WriteEnergy(dir, fmt.Sprintf("timestamp,energy (mWh)\n%d,1000\n%d,4294968296\n", g+300*9, g+300*9+1))
	if !world.Step(c, "tick") {
		t.Fatal("no tick")
	}
	sink.WaitCount(2, 1e9)
	sink.Settle(3e6)
	all := sink.All()
	ev.Eval(1)
	if len(all) == 2 && string(all[0]) != string(all[1]) {
		r0, _ := ref.DecodeReport(all[0])
		r1, _ := ref.DecodeReport(all[1])
		if r0.Timeslot == r1.Timeslot && uint32(r0.Power) == uint32(r1.Power) {
			if isKnown("KF-C09-1") {
				ev.Known("KF-C09-1")
				return
			}
			lastCase(map[string]interface{}{"energy_file_rows": []string{"(slot 9, 1000)", "(slot 9, 4294968296)"}, "datagram_powers": []uint64{r0.Power, r1.Power}})
			t.Fatalf("C09: two different datagrams for slot %d (powers %d and %d): readings that differ by a multiple of 2^32 are both signed", r0.Timeslot, r0.Power, r1.Power)
		}
	}
}
