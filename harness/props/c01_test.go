//go:build test && verif

package props

// C01 - only authentic, authorized, in-window reports change server state.
//
// One case = one world (window offset, devices, a banned id, a never
// authorized key) and a sequence of datagrams, each delivered through the real
// UDP socket at a generated clock value. The oracle is the reference
// acceptance predicate (ref.Model.Judge, reference signature verifier): after
// every datagram the complete server state must equal the model, which changes
// only for acceptable reports; the persisted report log must be byte-identical
// unless the report was integrated; at the end the public surface is compared.

import (
	"fmt"
	"testing"

	"github.com/glowlabs-org/gca-backend/server"
	"pgregory.net/rapid"

	"verif/harness/ev"
	"verif/harness/ref"
)

type world1 struct {
	s       *sess
	devs    []uint32           // authorized ids
	devKey  map[uint32]ref.Key // key of each authorized id
	banned  uint32             // a banned id
	bannedK ref.Key
	unknown ref.Key // never authorized
	others  []ref.Key
	srvKey  ref.Key
	held    [][]byte // datagrams the server accepted in this case (it holds their reports)
}

// buildWorld starts a stepped server whose window starts at week k, registers
// the GCA and authorizes nDev devices plus one id that is then banned by a
// conflicting authorization.
func buildWorld(t *rapid.T, prop string, k int, nDev int, withBanned bool) *world1 {
	server.VerifSetStepping(true)
	temp := keyFor("temp")
	gca := keyFor("gca")
	startNow := uint32(0)
	if k > 0 {
		startNow = uint32(2016*(k-1) + 4000 + rapid.IntRange(0, 2015).Draw(t, "startPhase"))
	}
	s := newSess(t, prop, temp, startNow)
	s.start()
	if int(s.M.Offset) != 2016*k {
		s.fail("harness: expected window offset %d after start-up at clock %d, got %d", 2016*k, startNow, s.M.Offset)
	}
	s.register(gca, temp, true)
	w := &world1{s: s, devKey: map[uint32]ref.Key{}, unknown: keyFor("unknown-dev"), others: []ref.Key{gca, temp, keyFor("fresh")}}
	for i := 0; i < nDev; i++ {
		id := uint32(10 + i)
		if i == 2 {
			id = 0xfffffff0
		}
		key := keyFor(fmt.Sprintf("dev-%d", i))
		a := ref.Auth{ShortID: id, PublicKey: key.Pub, Capacity: drawCapacity(t, fmt.Sprintf("cap%d", i)), Latitude: 10 + float64(i), Longitude: -20}
		a.Sig = ref.Sign(gca, a.SigningBytes())
		if out := s.authorize(a, "new"); out != ref.AuthNew {
			s.fail("harness: fresh authorization not new: %v", out)
		}
		w.devs = append(w.devs, id)
		w.devKey[id] = key
	}
	if withBanned {
		w.banned = 77
		w.bannedK = keyFor("dev-banned")
		a := ref.Auth{ShortID: 77, PublicKey: w.bannedK.Pub, Capacity: 1000}
		a.Sig = ref.Sign(gca, a.SigningBytes())
		s.authorize(a, "new(to be banned)")
		a.Capacity = 1001
		a.Sig = ref.Sign(gca, a.SigningBytes())
		if out := s.authorize(a, "conflict"); out != ref.AuthConflict {
			s.fail("harness: conflicting authorization outcome %v", out)
		}
	}
	snap := s.S.VerifSnapshot()
	w.srvKey = ref.Key{Pub: [32]byte(snap.ServerPub), Priv: [32]byte(snap.ServerPriv)}
	w.others = append(w.others, w.srvKey)
	return w
}

type dgram struct {
	b     []byte
	class string
	// for a well-formed report: how many acceptance conditions it violates is
	// decided by the model; what the generator intended:
	intent string
}

// genDatagram draws one datagram.
func (w *world1) genDatagram(t *rapid.T) dgram {
	s := w.s
	pickDev := func() (uint32, ref.Key, uint64) {
		id := rapid.SampledFrom(w.devs).Draw(t, "dev")
		return id, w.devKey[id], s.M.Devices[id].Capacity
	}
	wellFormed := func() (ref.Report, ref.Key) {
		id, key, capacity := pickDev()
		r := ref.Report{ShortID: id, Timeslot: drawSlot(t, s.now, s.M.Offset, "slot"), Power: drawPower(t, capacity, "power")}
		return r, key
	}
	switch c := rapid.IntRange(0, 17).Draw(t, "dgClass"); c {
	case 0: // random bytes
		n := rapid.IntRange(0, 200).Draw(t, "len")
		return dgram{b: rapid.SliceOfN(rapid.Byte(), n, n).Draw(t, "bytes"), class: "random-bytes"}
	case 1, 2, 3, 4: // well-formed, correctly signed
		r, key := wellFormed()
		r.Sig = ref.Sign(key, r.SigningBytes())
		return dgram{b: r.Encode(), class: "well-formed"}
	case 5: // single bit flip of a valid report
		r, key := wellFormed()
		r.Sig = ref.Sign(key, r.SigningBytes())
		b := r.Encode()
		pos := rapid.IntRange(0, 639).Draw(t, "bit")
		b[pos/8] ^= 1 << (uint(pos) % 8)
		return dgram{b: b, class: "bit-flip", intent: fmt.Sprintf("bit %d", pos)}
	case 6: // multi-bit flips
		r, key := wellFormed()
		r.Sig = ref.Sign(key, r.SigningBytes())
		b := r.Encode()
		for i, n := 0, rapid.IntRange(2, 6).Draw(t, "flips"); i < n; i++ {
			pos := rapid.IntRange(0, 639).Draw(t, "bit")
			b[pos/8] ^= 1 << (uint(pos) % 8)
		}
		return dgram{b: b, class: "multi-bit-flip"}
	case 7: // field swaps after signing
		r, key := wellFormed()
		r.Sig = ref.Sign(key, r.SigningBytes())
		switch rapid.IntRange(0, 3).Draw(t, "swap") {
		case 0:
			r.ShortID, r.Timeslot = r.Timeslot, r.ShortID
		case 1:
			r.Power = uint64(r.Timeslot)
		case 2:
			r.Timeslot = uint32(r.Power)
		default:
			other := rapid.SampledFrom(w.devs).Draw(t, "otherDev")
			r.ShortID = other
		}
		return dgram{b: r.Encode(), class: "field-swap"}
	case 8: // truncation / extension
		r, key := wellFormed()
		r.Sig = ref.Sign(key, r.SigningBytes())
		b := r.Encode()
		if rapid.Bool().Draw(t, "truncate") {
			n := rapid.IntRange(0, 79).Draw(t, "keep")
			return dgram{b: b[:n], class: "truncated"}
		}
		n := rapid.IntRange(1, 120).Draw(t, "extra")
		return dgram{b: append(b, rapid.SliceOfN(rapid.Byte(), n, n).Draw(t, "tail")...), class: "extended"}
	case 9: // signed by another key of the system
		r, own := wellFormed()
		var cands []ref.Key
		cands = append(cands, w.others...)
		for _, id := range w.devs {
			if w.devKey[id].Pub != own.Pub {
				cands = append(cands, w.devKey[id])
			}
		}
		cands = append(cands, w.unknown)
		// the device key's mirror (private key N-d: same X coordinate, other Y)
		cands = append(cands, ref.MirrorKey(own), ref.MirrorKey(own))
		if w.bannedK.Pub != ([32]byte{}) {
			cands = append(cands, w.bannedK)
		}
		k := cands[rapid.IntRange(0, len(cands)-1).Draw(t, "signer")]
		r.Sig = ref.Sign(k, r.SigningBytes())
		return dgram{b: r.Encode(), class: "foreign-signer"}
	case 10: // right key, wrong signing bytes
		r, key := wellFormed()
		var msg []byte
		switch rapid.IntRange(0, 3).Draw(t, "msgVariant") {
		case 0:
			msg = r.Body() // no type prefix
		case 1:
			msg = append([]byte("EquipmentAuthorization"), r.Body()...)
		case 2:
			msg = append([]byte("equipmentreport"), r.Body()...)
		default:
			msg = r.Encode()[:16+rapid.IntRange(0, 8).Draw(t, "extraLen")]
		}
		r.Sig = ref.Sign(key, msg)
		return dgram{b: r.Encode(), class: "wrong-signing-bytes"}
	case 11: // banned or unknown device, validly signed by its key
		if w.bannedK.Pub != ([32]byte{}) && rapid.Bool().Draw(t, "useBanned") {
			r := ref.SignedReport(w.bannedK, w.banned, drawSlot(t, s.now, s.M.Offset, "slot"), 500)
			return dgram{b: r.Encode(), class: "banned-device"}
		}
		r := ref.SignedReport(w.unknown, rapid.SampledFrom([]uint32{0, 1, 9, 78, 0xffffffff}).Draw(t, "unknownID"), drawSlot(t, s.now, s.M.Offset, "slot"), 500)
		return dgram{b: r.Encode(), class: "unknown-device"}
	case 12: // second valid signature over the same content
		r, key := wellFormed()
		nonce := rapid.SliceOfN(rapid.Byte(), 4, 4).Draw(t, "nonce")
		sig, ok := ref.SignWithNonce(key, r.SigningBytes(), nonce)
		if !ok {
			sig = ref.Sign(key, r.SigningBytes())
		}
		r.Sig = sig
		return dgram{b: r.Encode(), class: "well-formed-alt-signature"}
	case 13: // a valid report whose signature ends in zero bytes, sent without them:
		// "too short", although padding it with zeros would give a valid report
		r, key := wellFormed()
		sig, ok := ref.SignZeroTail(key, r.SigningBytes())
		if !ok {
			sig = ref.Sign(key, r.SigningBytes())
		}
		r.Sig = sig
		b := r.Encode()
		n := len(b)
		for n > 0 && b[n-1] == 0 {
			n--
		}
		if n == len(b) {
			return dgram{b: b, class: "well-formed"}
		}
		keep := rapid.IntRange(n, len(b)-1).Draw(t, "keepZeros")
		return dgram{b: b[:keep], class: "truncated-zero-tail"}
	case 14: // a valid report whose signature was replaced by its twin (r, N-s): 256 bits
		// changed without the key; the datagram is not the one the device signed
		r, key := wellFormed()
		r.Sig = ref.HighSTwin(ref.Sign(key, r.SigningBytes()))
		return dgram{b: r.Encode(), class: "signature-twin"}
	case 15: // a copy of a report the server already HOLDS with the value (or the slot) altered and the
		// signature kept: it is not what the device signed, whatever the server remembers about that signature
		if len(w.held) == 0 {
			r, key := wellFormed()
			r.Sig = ref.Sign(key, r.SigningBytes())
			return dgram{b: r.Encode(), class: "well-formed"}
		}
		b := append([]byte(nil), w.held[rapid.IntRange(0, len(w.held)-1).Draw(t, "heldIdx")]...)
		if rapid.IntRange(0, 3).Draw(t, "alterSlot") == 0 {
			b[4] ^= byte(rapid.IntRange(1, 255).Draw(t, "slotXor"))
		} else {
			pos := 8 + rapid.IntRange(0, 7).Draw(t, "powerByte")
			b[pos] ^= byte(rapid.IntRange(1, 255).Draw(t, "powerXor"))
		}
		return dgram{b: b, class: "altered-copy-of-held-report"}
	case 17: // an unacceptable leading record with an authentic, acceptable report BEHIND it
		// (at offset 80, after some padding, or twice): a datagram is one report
		var head []byte
		switch rapid.IntRange(0, 3).Draw(t, "headKind") {
		case 0:
			r, key := wellFormed()
			r.Sig = ref.Sign(key, r.SigningBytes())
			head = r.Encode()
			pos := rapid.IntRange(96, 639).Draw(t, "headSigBit")
			head[pos/8] ^= 1 << (uint(pos) % 8)
		case 1:
			k := keyFor("never-authorized-2")
			head = ref.SignedReport(k, 4000000, s.now, 5).Encode()
		case 2:
			id, key, _ := pickDev()
			head = ref.SignedReport(key, id, s.now, uint64(rapid.IntRange(0, 1).Draw(t, "sentinel"))).Encode()
		default:
			head = rapid.SliceOfN(rapid.Byte(), 80, 80).Draw(t, "headBytes")
		}
		pad := rapid.SampledFrom([]int{0, 0, 0, 17, 80}).Draw(t, "pad")
		id, key, _ := pickDev()
		good := ref.SignedReport(key, id, s.now, 2).Encode()
		b := append(append(append([]byte{}, head...), make([]byte, pad)...), good...)
		if rapid.Bool().Draw(t, "twice") {
			b = append(b, good...)
		}
		return dgram{b: b, class: "authentic-report-behind-unacceptable-head"}
	default: // valid report with trailing bytes (judged by its leading 80 bytes)
		r, key := wellFormed()
		r.Sig = ref.Sign(key, r.SigningBytes())
		n := rapid.IntRange(1, 120).Draw(t, "extra")
		return dgram{b: append(r.Encode(), make([]byte, n)...), class: "valid-plus-trailing"}
	}
}

// violated counts how many acceptance conditions a decodable datagram violates.
func (w *world1) violated(b []byte) (int, string) {
	if len(b) < 80 {
		return 99, "short"
	}
	s := w.s
	r, _ := ref.DecodeReport(b[:80])
	n := 0
	why := ""
	a, ok := s.M.Devices[r.ShortID]
	if !ok {
		n++
		why += "device,"
	} else if !ref.Verify(a.PublicKey, r.SigningBytes(), r.Sig) {
		n++
		why += "signature,"
	}
	if d := int64(r.Timeslot) - int64(s.now); d < -432 || d > 432 {
		n++
		why += "clock,"
	}
	if int64(r.Timeslot) < int64(s.M.Offset) || int64(r.Timeslot) >= int64(s.M.Offset)+4032 {
		n++
		why += "window,"
	}
	if r.Power < 2 {
		n++
		why += "sentinel,"
	}
	return n, why
}

func bucket(v, lo int64) string {
	d := v - lo
	switch {
	case d < -433:
		return "<<"
	case d <= -431:
		return fmt.Sprint(d)
	case d < 431:
		return "~"
	case d <= 433:
		return fmt.Sprint(d)
	default:
		return ">>"
	}
}

func TestC01Datagrams(t *testing.T) {
	ev.Rule("C01: per case one world (window offset 2016k for k in 0..3, 1-3 devices with drawn capacities, one banned id, one never-authorized key) and 40-120 datagrams through the real UDP socket, each at a drawn clock value (boundaries offset+{0,431,432,433,3199,3200,3599..3601,4031..4033,4464}); classes: random bytes 0..200, well-formed signed reports with slot/power from the boundary sets, single/multi bit flips, field swaps, truncation/extension, re-signing under every other key in the system (other devices, GCA, temp key, server key, fresh key, banned key), signatures over wrong signing bytes, banned/unknown ids, second valid signature, an unacceptable leading record followed by an authentic acceptable report; oracle = reference acceptance predicate + reference model compared with the full server state and the persisted log after every datagram; non-trivial = decodable datagram violating at most one acceptance condition; distinct by (class, violated condition, clock-distance bucket, window-position bucket, power class, length)")
	rapid.Check(t, func(t *rapid.T) {
		k := rapid.IntRange(0, 3).Draw(t, "week")
		w := buildWorld(t, "C01", k, rapid.IntRange(1, 3).Draw(t, "nDev"), true)
		s := w.s
		defer s.cleanup()
		n := rapid.IntRange(40, 120).Draw(t, "nDatagrams")
		for i := 0; i < n; i++ {
			if i == 0 || rapid.IntRange(0, 3).Draw(t, "moveClock") == 0 {
				s.setClock(drawNow(t, s.M.Offset, "now"))
			}
			if i%37 == 36 {
				// the public surface is compared with the model mid-way too
				s.crossCheckAPI()
			}
			d := w.genDatagram(t)
			nv, why := w.violated(d.b)
			v := s.datagram(d.b, d.class)
			ev.Eval(1)
			ev.Label("c01:class-" + d.class)
			if v.Accept {
				w.held = append(w.held, append([]byte(nil), d.b[:80]...))
				ev.Label("c01:accepted")
			} else {
				ev.Label("c01:rejected-" + v.Reason)
			}
			if nv <= 1 {
				r := v.Report
				pc := "mid"
				switch {
				case r.Power < 2:
					pc = "sentinel"
				case r.Power < 4:
					pc = "2or3"
				case int64(r.Power) < 0:
					pc = "negative"
				}
				key := fmt.Sprintf("c01|%s|%s|%s|%s|%s|%d", d.class, why, bucket(int64(r.Timeslot), int64(s.now)), bucket(int64(r.Timeslot)-4032+432, int64(s.M.Offset)), pc, len(d.b))
				ev.NonTrivial(key)
				ev.Label("c01:nontrivial")
				if nv == 1 {
					ev.Sample("c01:one-condition-violated:"+why, map[string]interface{}{"class": d.class, "violated": why, "now": s.now, "offset": s.M.Offset, "id": r.ShortID, "slot": r.Timeslot, "power": r.Power, "len": len(d.b)})
				} else {
					ev.Sample("c01:accepted", map[string]interface{}{"class": d.class, "now": s.now, "offset": s.M.Offset, "id": r.ShortID, "slot": r.Timeslot, "power": r.Power, "len": len(d.b)})
				}
			}
		}
		s.crossCheckAPI()
		s.close()
	})
}
