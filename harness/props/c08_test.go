//go:build test && verif

package props

// C08 - lost datagrams are eventually recovered; retransmissions are
// identical. A real client and a real server are connected through a UDP
// holder (every datagram the client emits is captured; the harness decides per
// datagram whether it is dropped, delivered, duplicated or held back) and a
// TCP relay in front of the sync port that can fail every attempt. Deliveries
// go through the model session, so the server's reaction to every delivered
// datagram is checked against the reference model as well.

import (
	"fmt"
	"math"
	"os"
	"sort"
	"strconv"
	"strings"
	"testing"
	"time"

	"github.com/glowlabs-org/gca-backend/client"
	"github.com/glowlabs-org/gca-backend/glow"
	"pgregory.net/rapid"

	"verif/harness/ev"
	"verif/harness/ref"
	"verif/harness/world"
)

func TestC08Recovery(t *testing.T) {
	ev.Rule("C08: rapid state machine: append readings (positive, negative, |x|<24 -> sentinel 2, garbage -> sentinel 3; scaled value within 32 signed bits; default or negative calibration), reporting ticks, per-datagram relay decisions (drop / deliver / duplicate / hold, in drawn order), failing sync rounds (close, reset, short read of k bytes, garbage), successful mid-history rounds, clock advances, a rotation step, a server restart; then a fault-free sync round and delivery of everything held. Oracle: for every slot inside the server's window and within 432 slots of its clock for which the client has a reading, the server's record equals the client's value (never missing, never the ban sentinel); all datagrams ever emitted for one (id, slot) are byte-identical; every delivered datagram is also checked against the server model. Non-trivial = history in which an original was dropped and later recovered, or a sync attempt failed before the final round; distinct by history")
	g := int64(glow.GenesisTime)
	rapid.Check(t, func(t *rapid.T) {
		ev.Eval(1)
		k := rapid.IntRange(0, 1).Draw(t, "week")
		w := buildWorld(t, "C08", k, 1, false)
		s := w.s
		defer s.cleanup()
		id := w.devs[0]
		devKey := w.devKey[id]
		// the generated capacity may be tiny; recovery is about loss, not about the capacity rule
		if s.M.Devices[id].Capacity < 1<<40 {
			// re-authorize is a conflict; instead use a second device with a large capacity
			a := ref.Auth{ShortID: 500, PublicKey: keyFor("c08-dev").Pub, Capacity: 1 << 40}
			a.Sig = ref.Sign(s.gca, a.SigningBytes())
			s.authorize(a, "new")
			id, devKey = 500, keyFor("c08-dev")
		}
		hold := world.NewUDPSink()
		defer hold.Close()
		relay := world.NewTCPRelay(s.S.TCP)
		defer relay.Close()
		var cal *string
		m, d := client.VerifConsts().DefaultMultiplier, client.VerifConsts().DefaultDivider
		if rapid.IntRange(0, 2).Draw(t, "cal") == 0 {
			c := "-2\n1\n"
			cal, m, d = &c, -2, 1
		}
		s.setClock(s.M.Offset + uint32(rapid.IntRange(0, 1500).Draw(t, "startClock")))
		// the history origin is the window start, or lies strictly inside the
		// window (a freshly provisioned device), in which case the very first
		// reading is taken for the origin slot itself
		origin := s.M.Offset
		originInside := rapid.Bool().Draw(t, "originInsideWindow")
		if originInside {
			origin = s.now
		}
		client.VerifSetStepping(true)
		cfg := world.ClientCfg{Key: devKey, GCA: s.gca.Pub, ShortID: id, HistoryOffset: origin, CT: cal, Energy: "timestamp,energy (mWh)\n",
			Servers: map[[32]byte]ref.ClientServer{w.srvKey.Pub: {Location: "127.0.0.1", HttpPort: 1, TcpPort: relay.Port, UdpPort: hold.Port}}}
		cdir := world.NewClientDir(cfg)
		defer os.RemoveAll(cdir)
		c, err := world.StartClient(cdir)
		if err != nil {
			t.Fatalf("C08: NewClient: %v", err)
		}
		defer world.StopAllLeakedClients()
		defer func() { world.CloseClient(c) }()

		var file strings.Builder
		file.WriteString("timestamp,energy (mWh)\n")
		clientVal := map[uint32]uint64{} // slot -> value the client stores/sends
		latest := uint32(0)
		consumed := 0         // datagrams taken over from the holder
		var pending [][]byte  // held datagrams
		var everSeen [][]byte // everything the client ever emitted
		dropped := map[uint32]bool{}
		failedSync := false
		recovered := false
		unticked := 0
		// The client's own loop launches a sync round of its own after 30 ticks
		// (it starts counting at 30 and syncs at 60); such a round would consume
		// the relay's planned outcome. The history therefore grants at most 27
		// ticks plus the final one.
		ticksGranted := 0

		collect := func(expectAtLeast int) {
			hold.WaitCount(consumed+expectAtLeast, 2*time.Second)
			hold.Settle(3 * time.Millisecond)
			all := hold.All()
			for _, b := range all[consumed:] {
				pending = append(pending, b)
				everSeen = append(everSeen, b)
			}
			consumed = len(all)
		}
		deliver := func(b []byte, what string) {
			r, _ := ref.DecodeReport(b)
			v := s.datagram(b, what)
			if v.Accept && dropped[r.Timeslot] {
				recovered = true
			}
		}
		syncRound := func(t *rapid.T, outcome world.RelayOutcome) bool {
			relay.Plan([]world.RelayOutcome{outcome})
			s.logf("client sync round via relay outcome %s (latest %d)", outcome.Kind, latest)
			var ok bool
			func() {
				defer func() {
					if r := recover(); r != nil {
						s.fail("client sync round panicked: %v", r)
					}
				}()
				ok = c.VerifSyncOnce(latest)
			}()
			s.checkPanics("client sync round")
			if ps := client.VerifPanics(); len(ps) > 0 {
				s.fail("client goroutine panicked: %s: %s", ps[0].Where, ps[0].Value)
			}
			if !clientLockFree(c) {
				s.fail("client mutex held after a sync round")
			}
			collect(0)
			return ok
		}
		actions := map[string]func(*rapid.T){
			"reading": func(t *rapid.T) {
				if !(originInside && len(clientVal) == 0) { // the first reading of a fresh device is for the origin slot
					s.setClock(s.now + uint32(rapid.SampledFrom([]int{1, 1, 1, 1, 2, 3}).Draw(t, "advance")))
				}
				slot := s.now
				if _, dup := clientVal[slot]; dup || (slot <= latest && len(clientVal) > 0) {
					t.Skip("slot already has a reading")
				}
				var lit string
				switch rapid.IntRange(0, 6).Draw(t, "readingClass") {
				case 6:
					// readings whose scaled value sits on the edges of 32 signed bits
					target := rapid.SampledFrom([]int64{math.MinInt32, math.MinInt32 + 1, math.MaxInt32, math.MaxInt32 - 1, -1, 1 << 30, -(1 << 30)}).Draw(t, "edgeValue")
					lit = strconv.FormatFloat(float64(target)*d/m, 'f', -1, 64)
				case 0:
					lit = rapid.SampledFrom([]string{"0", "12.5", "-23.9"}).Draw(t, "small")
				case 1:
					lit = rapid.SampledFrom([]string{"err", "", "1,2"[:1] + "x"}).Draw(t, "garbage")
				case 2:
					lit = strconv.FormatInt(-rapid.Int64Range(24, 1000000000).Draw(t, "neg"), 10)
				default:
					lit = strconv.FormatInt(rapid.Int64Range(24, 1000000000).Draw(t, "pos"), 10)
				}
				v := c09Value(lit, m, d)
				if int64(v) > math.MaxInt32 || int64(v) < math.MinInt32 {
					t.Skip("outside 32 signed bits")
				}
				file.WriteString(fmt.Sprintf("%d,%s\n", g+300*int64(slot)+11, lit))
				clientVal[slot] = v
				latest = slot
				unticked++
				s.logf("reading(slot %d, %q -> %d)", slot, lit, int64(v))
			},
			"rewrite": func(t *rapid.T) {
				// the meter rewrites an earlier row: a second, different reading for a
				// slot that already has one (it must never change what is sent or resent)
				if len(clientVal) == 0 {
					t.Skip("no reading yet")
				}
				var slots []uint32
				for sl := range clientVal {
					slots = append(slots, sl)
				}
				sort.Slice(slots, func(i, j int) bool { return slots[i] < slots[j] })
				// slots that hold a placeholder (2: small, 3: unreadable) are preferred,
				// and among them those whose original datagram was lost
				var special []uint32
				for _, sl := range slots {
					if clientVal[sl] == 2 || clientVal[sl] == 3 {
						special = append(special, sl)
						if dropped[sl] {
							special = append(special, sl, sl)
						}
					}
				}
				if len(special) > 0 && rapid.IntRange(0, 2).Draw(t, "rewriteSpecial") != 0 {
					slots = special
				}
				slot := slots[rapid.IntRange(0, len(slots)-1).Draw(t, "rewriteSlot")]
				lit := strconv.FormatInt(rapid.Int64Range(24, 1000000).Draw(t, "rewriteVal"), 10)
				if c09Value(lit, m, d) == clientVal[slot] {
					t.Skip("same value")
				}
				file.WriteString(fmt.Sprintf("%d,%s\n", g+300*int64(slot)+17, lit))
				s.logf("rewrite(slot %d, %q) - the first reading %d stays", slot, lit, int64(clientVal[slot]))
				ev.Label("c08:row-rewritten")
			},
			"burst": func(t *rapid.T) {
				// a dense run of readings for consecutive slots (fills whole bytes of the sync bitfield)
				n := rapid.IntRange(8, 40).Draw(t, "burstLen")
				for i := 0; i < n; i++ {
					s.setClock(s.now + 1)
					slot := s.now
					if _, dup := clientVal[slot]; dup || slot <= latest {
						continue
					}
					lit := strconv.FormatInt(rapid.Int64Range(24, 100000).Draw(t, "burstVal"), 10)
					if rapid.IntRange(0, 9).Draw(t, "burstNeg") == 0 {
						lit = "-" + lit
					}
					v := c09Value(lit, m, d)
					file.WriteString(fmt.Sprintf("%d,%s\n", g+300*int64(slot)+11, lit))
					clientVal[slot] = v
					latest = slot
					unticked++
				}
				s.logf("burst of %d consecutive readings up to slot %d", n, latest)
				world.WriteEnergy(cdir, file.String())
				if ticksGranted >= 27 {
					return // the readings are picked up by the final tick
				}
				ticksGranted++
				if !world.Step(c, "tick") {
					s.fail("client did not take the granted tick (panics %+v)", client.VerifPanics())
				}
				collect(unticked)
				unticked = 0
			},
			"tick": func(t *rapid.T) {
				if ticksGranted >= 27 {
					t.Skip("tick budget used (the client would start a sync round of its own)")
				}
				ticksGranted++
				world.WriteEnergy(cdir, file.String())
				s.logf("client tick (%d new readings)", unticked)
				if !world.Step(c, "tick") {
					s.fail("client did not take the granted tick (panics %+v)", client.VerifPanics())
				}
				collect(unticked)
				unticked = 0
			},
			"relay": func(t *rapid.T) {
				if len(pending) == 0 {
					t.Skip("nothing held")
				}
				order := pending
				if rapid.Bool().Draw(t, "reorder") {
					order = rapid.Permutation(pending).Draw(t, "order")
				}
				mode := rapid.SampledFrom([]string{"independent", "drop-few", "drop-few", "low-loss"}).Draw(t, "relayMode")
				dropIdx := map[int]bool{}
				if mode == "drop-few" {
					for i, n := 0, rapid.IntRange(1, 2).Draw(t, "dropCount"); i < n; i++ {
						dropIdx[rapid.IntRange(0, len(order)-1).Draw(t, "dropWhich")] = true
					}
				}
				var keep [][]byte
				for oi, b := range order {
					r, _ := ref.DecodeReport(b)
					decision := "deliver"
					switch mode {
					case "independent":
						decision = rapid.SampledFrom([]string{"drop", "drop", "deliver", "duplicate", "hold"}).Draw(t, "decision")
					case "low-loss":
						decision = rapid.SampledFrom([]string{"drop", "deliver", "deliver", "deliver", "deliver", "deliver", "deliver", "deliver", "duplicate", "hold"}).Draw(t, "decisionLow")
					default:
						if dropIdx[oi] {
							decision = "drop"
						}
					}
					switch decision {
					case "drop":
						s.logf("relay drops datagram for slot %d", r.Timeslot)
						if s.M.Live[id] != nil && int64(r.Timeslot) >= int64(s.M.Offset) && int64(r.Timeslot) < int64(s.M.Offset)+4032 && !s.M.Live[id][r.Timeslot-s.M.Offset].Has {
							dropped[r.Timeslot] = true
						}
					case "deliver":
						deliver(b, "relay-deliver")
					case "duplicate":
						deliver(b, "relay-deliver")
						deliver(b, "relay-duplicate")
					default:
						keep = append(keep, b)
					}
				}
				pending = keep
			},
			"syncFail": func(t *rapid.T) {
				var out world.RelayOutcome
				switch rapid.SampledFrom([]string{"close", "reset", "short", "garbage"}).Draw(t, "failKind") {
				case "close":
					out = world.RelayOutcome{Kind: "close"}
				case "reset":
					out = world.RelayOutcome{Kind: "reset"}
				case "short":
					out = world.RelayOutcome{Kind: "short", Keep: rapid.SampledFrom([]int{0, 1, 2, 3, 100, 577, 640, 713}).Draw(t, "keep")}
				default:
					n := rapid.IntRange(0, 800).Draw(t, "garbageLen")
					out = world.RelayOutcome{Kind: "garbage", Raw: rapid.SliceOfN(rapid.Byte(), n, n).Draw(t, "garbage")}
				}
				if syncRound(t, out) {
					s.fail("sync round reported success although the relay injected a %s failure", out.Kind)
				}
				failedSync = true
			},
			"syncOK": func(t *rapid.T) {
				if !syncRound(t, world.RelayOutcome{Kind: "pass"}) {
					s.fail("sync round against a reachable server failed")
				}
			},
			"clock": func(t *rapid.T) {
				s.setClock(s.now + uint32(rapid.SampledFrom([]int{1, 5, 20, 60, 200, 433}).Draw(t, "jump")))
			},
			"rotate": func(t *rapid.T) {
				if int64(s.now)-int64(s.M.Offset) <= 3200 {
					if rapid.IntRange(0, 3).Draw(t, "forceTrigger") == 0 {
						s.setClock(s.M.Offset + 3201 + uint32(rapid.IntRange(0, 300).Draw(t, "past")))
					}
				}
				s.stepMigrate()
			},
			"clientRestartFreshFile": func(t *rapid.T) {
				// the device reboots and the meter starts a new energy file: what the
				// client knows is in its history file, its "latest reading" is unknown
				// until the next row appears - a sync round must still resend
				if len(clientVal) == 0 {
					t.Skip("nothing recorded yet")
				}
				world.WriteEnergy(cdir, file.String())
				if ticksGranted < 27 {
					ticksGranted++
					if !world.Step(c, "tick") {
						s.fail("client did not take the granted tick (panics %+v)", client.VerifPanics())
					}
					collect(unticked)
					unticked = 0
				}
				if unticked > 0 {
					t.Skip("readings not yet picked up")
				}
				if err := world.CloseClient(c); err != nil {
					s.fail("client close: %v", err)
				}
				collect(0)
				file.Reset()
				file.WriteString("timestamp,energy (mWh)\n")
				world.WriteEnergy(cdir, file.String())
				var err error
				if c, err = world.StartClient(cdir); err != nil {
					s.fail("client restart: %v", err)
				}
				ticksGranted = 0
				latest = 0
				s.logf("client restarted with a fresh energy file")
				ev.Label("c08:client-restart-fresh-file")
			},
			"serverRestart": func(t *rapid.T) {
				s.restart(s.now)
				relay.Retarget(s.S.TCP)
			},
		}
		// In a fifth of the cases the history starts with a long outage: several
		// hundred consecutive readings (more than the 432 slots of the acceptance
		// range) whose original datagrams are all lost.
		if rapid.IntRange(0, 4).Draw(t, "longOutage") == 0 {
			n := rapid.IntRange(440, 900).Draw(t, "outageLen")
			for i := 0; i < n; i++ {
				if !(originInside && len(clientVal) == 0) {
					s.setClock(s.now + 1)
				}
				slot := s.now
				lit := strconv.Itoa(1000 + i)
				file.WriteString(fmt.Sprintf("%d,%s\n", g+300*int64(slot)+11, lit))
				clientVal[slot] = c09Value(lit, m, d)
				latest = slot
				unticked++
			}
			world.WriteEnergy(cdir, file.String())
			ticksGranted++
			if !world.Step(c, "tick") {
				s.fail("client did not take the granted tick (panics %+v)", client.VerifPanics())
			}
			collect(unticked)
			unticked = 0
			for _, b := range pending {
				r, _ := ref.DecodeReport(b)
				dropped[r.Timeslot] = true
			}
			s.logf("long outage: %d consecutive readings up to slot %d, all %d originals lost", n, latest, len(pending))
			pending = nil
			ev.Label("c08:long-outage")
		}
		for _, dup := range []string{"reading", "tick", "relay", "burst"} {
			actions[dup+"#2"] = actions[dup]
		}
		actions["reading#3"] = actions["reading"]
		t.Repeat(actions)
		// final fault-free round, then everything arrives
		world.WriteEnergy(cdir, file.String())
		if !world.Step(c, "tick") {
			s.fail("client did not take the final tick")
		}
		collect(unticked)
		// In a third of the cases the final round happens at the moment the oldest
		// reading the server still lacks sits exactly on (or just inside) the lower
		// edge of the acceptance range: it must still be resent and accepted.
		if rapid.IntRange(0, 2).Draw(t, "edgeFinal") == 0 {
			snap := s.S.VerifSnapshot()
			var lacking []uint32
			for slot := range clientVal {
				if int64(slot) < int64(snap.Offset) || int64(slot) >= int64(snap.Offset)+4032 {
					continue
				}
				if snap.Reports[id][slot-snap.Offset].PowerOutput == 0 && int64(slot)+430 >= int64(s.now) {
					lacking = append(lacking, slot)
				}
			}
			sort.Slice(lacking, func(i, j int) bool { return lacking[i] < lacking[j] })
			if len(lacking) > 0 {
				target := lacking[0] + uint32(rapid.SampledFrom([]int{432, 432, 431, 430}).Draw(t, "edgeAge"))
				if target >= s.now {
					s.setClock(target)
					ev.Label("c08:final-round-at-acceptance-edge")
				}
			}
		}
		// what is still missing before the final round (for the non-triviality rule)
		if !syncRound(t, world.RelayOutcome{Kind: "pass"}) {
			s.fail("the final sync round against a reachable server failed")
		}
		for _, b := range pending {
			deliver(b, "final-deliver")
		}
		pending = nil
		snap := s.S.VerifSnapshot()
		checked := 0
		for slot, v := range clientVal {
			if int64(slot) < int64(snap.Offset) || int64(slot) >= int64(snap.Offset)+4032 {
				continue
			}
			if dd := int64(slot) - int64(s.now); dd < -432 || dd > 432 {
				// no longer within the acceptance range: only whatever arrived in time counts
				continue
			}
			got := snap.Reports[id][slot-snap.Offset].PowerOutput
			if got != v {
				s.fail("after recovery the server holds %d for timeslot %d, the device's reading is %d (window offset %d, clock %d)", got, slot, int64(v), snap.Offset, s.now)
			}
			checked++
		}
		// retransmissions are byte-identical to the originals
		by := map[uint32][]byte{}
		for _, b := range everSeen {
			r, err := ref.DecodeReport(b)
			if err != nil {
				s.fail("client emitted a %d-byte datagram", len(b))
			}
			if r.ShortID != id {
				s.fail("client emitted a datagram for id %d", r.ShortID)
			}
			if prev, ok := by[r.Timeslot]; ok {
				if string(prev) != string(b) {
					p, _ := ref.DecodeReport(prev)
					s.fail("two different datagrams were emitted for timeslot %d (powers %d and %d)", r.Timeslot, p.Power, r.Power)
				}
				ev.Label("c08:retransmission-seen")
			}
			by[r.Timeslot] = b
			if want, ok := clientVal[r.Timeslot]; ok && want != r.Power {
				s.fail("datagram for timeslot %d carries %d, the reading is %d", r.Timeslot, r.Power, int64(want))
			}
		}
		if recovered || failedSync {
			ev.NonTrivial(fmt.Sprintf("c08|%v", s.hist))
			ev.Label("c08:nontrivial")
			ev.Sample("c08:history", histSampleSess(s))
		}
		if recovered {
			ev.Label("c08:dropped-then-recovered")
		}
		ev.LabelN("c08:slots-checked", checked)
		s.close()
	})
}

func histSampleSess(s *sess) map[string]interface{} {
	hs := s.hist
	if len(hs) > 50 {
		hs = append(append([]string{}, hs[:25]...), append([]string{"..."}, hs[len(hs)-24:]...)...)
	}
	return map[string]interface{}{"steps": len(s.hist), "history": hs}
}
