//go:build test && verif

package props

// The history machine drives one server through generated histories of
// registrations, authorizations (valid, duplicate, conflicting, forged),
// reports, clock advances, rotation and impact steps, restarts and statistics
// queries. It is shared by C03, C04, C06 and C07, which differ in action
// weights, in what they force (e.g. a restart after every step) and in the
// rule that makes a history non-trivial. The oracle is always the reference
// model (sess.compare after every action, sess.crossCheckAPI at drawn points
// and at the end).

import (
	"bytes"
	"encoding/hex"
	"fmt"
	"math"
	"sync"

	"github.com/glowlabs-org/gca-backend/server"
	"pgregory.net/rapid"

	"verif/harness/ev"
	"verif/harness/ref"
	"verif/harness/world"
)

type histOpts struct {
	prop            string
	preRegistered   bool // register the GCA before the generated part
	restartEvery    bool // restart after every action
	allowRotation   bool
	allowImpact     bool
	allowRegProbes  bool // registration attempts and authority probes (C07)
	allowBatches    bool // concurrent registration batches (C07)
	allowStatsQuery bool
	extremeFloats   bool // any finite latitude/longitude (C06); otherwise moderate values
	preDevices      int  // devices authorized before the generated part
	weights         map[string]int
}

type histFlags struct {
	rotations            int
	rotationWithData     bool
	queriedArchivedAfter bool // archived week queried again after further traffic
	restarts             int
	restartWithBan       bool
	restartWithBannedLog bool
	restartWithSlotBan   bool
	restartWithArchive   bool
	conflictMultiDev     bool
	conflictForeignKey   bool
	regAttempts          int
	batch                bool
	falseNegQuery        bool
	trafficSinceRotation bool
}

type hist struct {
	s     *sess
	o     histOpts
	f     histFlags
	gen   map[uint32]int     // generation counter per id (fresh keys)
	keys  map[uint32]ref.Key // current key per live id
	idset []uint32
	cands []ref.Key // candidate GCA keys
	steps int
}

func newHist(t *rapid.T, o histOpts) *hist {
	server.VerifSetStepping(true)
	temp := keyFor("temp")
	s := newSess(t, o.prop, temp, 0)
	s.start()
	h := &hist{s: s, o: o, gen: map[uint32]int{}, keys: map[uint32]ref.Key{}, idset: []uint32{1, 2, 3, 4, 0, math.MaxUint32}}
	h.cands = []ref.Key{keyFor("gca"), keyFor("gca-b"), keyFor("gca-c")}
	if o.preRegistered {
		s.register(h.cands[0], temp, true)
		for i := 0; i < o.preDevices; i++ {
			id := h.idset[i]
			a := h.freshAuth(t, id)
			if a.Capacity < 1000 {
				a.Capacity += 1000
			}
			h.signGCA(&a)
			if s.authorize(a, "new") == ref.AuthNew {
				h.keys[id] = h.keyOfAuth(a)
			}
		}
	}
	return h
}

// actBulk sends a run of valid reports with mid-range values to consecutive
// slots around the clock, so that weeks with many non-zero slots get archived.
func (h *hist) actBulk(t *rapid.T) {
	s := h.s
	live := h.liveIDs()
	if len(live) == 0 {
		t.Skip("no live device")
	}
	id := rapid.SampledFrom(live).Draw(t, "dev")
	k := h.keys[id]
	n := rapid.IntRange(20, 120).Draw(t, "bulkN")
	lo := int64(s.now) - 432
	if lo < int64(s.M.Offset) {
		lo = int64(s.M.Offset)
	}
	start := lo + rapid.Int64Range(0, 400).Draw(t, "bulkStart")
	lim := limitOf(s.M.Devices[id].Capacity)
	if lim < 30 {
		t.Skip("capacity too small for mid-range values")
	}
	s.light = true
	acc := 0
	for i := 0; i < n; i++ {
		slot := start + int64(i)
		if slot > int64(s.now)+432 || slot >= int64(s.M.Offset)+4032 {
			break
		}
		p := 24 + uint64(i)%(lim-24)
		if p > 1e17 {
			p = 1e17
		}
		if v := s.datagram(ref.SignedReport(k, id, uint32(slot), p).Encode(), "bulk"); v.Accept {
			acc++
		}
	}
	s.endBulk()
	if acc > 0 {
		h.f.trafficSinceRotation = true
		ev.LabelN(h.o.prop+":report-accepted", acc)
	}
}

func (h *hist) liveIDs() []uint32 { return h.s.M.DeviceIDs() }

func (h *hist) freshAuth(t *rapid.T, id uint32) ref.Auth {
	h.gen[id]++
	k := keyFor(fmt.Sprintf("dev-%d-g%d", id, h.gen[id]))
	a := ref.Auth{ShortID: id, PublicKey: k.Pub, Capacity: drawCapacity(t, "capacity"),
		Debt: rapid.Uint64().Draw(t, "debt"), Expiration: rapid.Uint32().Draw(t, "expiration"),
		Initialization: rapid.Uint32().Draw(t, "initialization"), ProtocolFee: rapid.Uint64().Draw(t, "fee")}
	if h.o.extremeFloats {
		a.Latitude, a.Longitude = finiteFloat(t, "lat"), finiteFloat(t, "lon")
	} else {
		a.Latitude, a.Longitude = rapid.Float64Range(-90, 90).Draw(t, "lat"), rapid.Float64Range(-180, 180).Draw(t, "lon")
	}
	return a
}

func (h *hist) keyOfAuth(a ref.Auth) ref.Key {
	for i := 1; i <= h.gen[a.ShortID]; i++ {
		k := keyFor(fmt.Sprintf("dev-%d-g%d", a.ShortID, i))
		if k.Pub == a.PublicKey {
			return k
		}
	}
	return ref.Key{}
}

func (h *hist) signGCA(a *ref.Auth) { a.Sig = ref.Sign(h.s.gca, a.SigningBytes()) }

func (h *hist) actAuthorize(t *rapid.T) {
	s := h.s
	live := h.liveIDs()
	kind := rapid.SampledFrom([]string{"new", "new", "new", "duplicate", "conflict-field", "conflict-field", "conflict-reuse-key", "bad-signature", "foreign-signature", "for-banned"}).Draw(t, "authKind")
	if !s.M.Registered && kind != "foreign-signature" && kind != "bad-signature" {
		// nothing can be validly signed yet: probe with the keys that exist
		kind = "foreign-signature"
	}
	switch kind {
	case "new":
		var free []uint32
		for _, id := range h.idset {
			if _, used := s.M.Devices[id]; !used && !s.M.Bans[id] {
				free = append(free, id)
			}
		}
		if len(free) == 0 {
			kind = "duplicate"
			break
		}
		id := rapid.SampledFrom(free).Draw(t, "newID")
		a := h.freshAuth(t, id)
		h.signGCA(&a)
		if s.authorize(a, "new") == ref.AuthNew {
			h.keys[id] = h.keyOfAuth(a)
		}
		return
	}
	switch kind {
	case "duplicate":
		if len(live) == 0 {
			t.Skip("no device to duplicate")
		}
		id := rapid.SampledFrom(live).Draw(t, "dupID")
		if out := s.authorize(s.M.Devices[id], "duplicate"); out != ref.AuthDuplicate {
			s.fail("harness: resubmission was %v", out)
		}
		ev.Label(h.o.prop + ":auth-duplicate")
	case "conflict-field", "conflict-reuse-key":
		if len(live) == 0 {
			t.Skip("no device to conflict with")
		}
		id := rapid.SampledFrom(live).Draw(t, "conflictID")
		a := s.M.Devices[id]
		field := "PublicKey(other device)"
		if kind == "conflict-reuse-key" {
			var others []uint32
			for _, o := range live {
				if o != id {
					others = append(others, o)
				}
			}
			if len(others) == 0 {
				t.Skip("no other device whose key could be reused")
			}
			a.PublicKey = s.M.Devices[rapid.SampledFrom(others).Draw(t, "reuseFrom")].PublicKey
			h.f.conflictForeignKey = true
		} else {
			field = rapid.SampledFrom([]string{"PublicKey", "Latitude", "Latitude-ulp", "Latitude-signzero", "Longitude", "Capacity", "Debt", "Expiration", "Initialization", "ProtocolFee", "Signature-only"}).Draw(t, "field")
			switch field {
			case "PublicKey":
				a.PublicKey = h.freshAuth(t, id).PublicKey
			case "Latitude":
				a.Latitude = a.Latitude + 1
				if a.Latitude == s.M.Devices[id].Latitude {
					a.Latitude = -a.Latitude / 2
				}
			case "Latitude-ulp":
				a.Latitude = math.Nextafter(a.Latitude, math.Inf(1))
				if math.IsInf(a.Latitude, 0) {
					a.Latitude = math.Nextafter(s.M.Devices[id].Latitude, math.Inf(-1))
				}
			case "Latitude-signzero":
				if a.Latitude == 0 {
					a.Latitude = math.Copysign(0, -1)
					if math.Signbit(s.M.Devices[id].Latitude) {
						a.Latitude = 0
					}
				} else {
					a.Latitude = -a.Latitude
				}
			case "Longitude":
				a.Longitude = math.Nextafter(a.Longitude, math.Inf(-1))
				if math.IsInf(a.Longitude, 0) {
					a.Longitude = 0
				}
			case "Capacity":
				a.Capacity ^= 1 << rapid.UintRange(0, 55).Draw(t, "bit")
			case "Debt":
				a.Debt ^= 1 << rapid.UintRange(0, 63).Draw(t, "bit")
			case "Expiration":
				a.Expiration ^= 1 << rapid.UintRange(0, 31).Draw(t, "bit")
			case "Initialization":
				a.Initialization ^= 1 << rapid.UintRange(0, 31).Draw(t, "bit")
			case "ProtocolFee":
				a.ProtocolFee ^= 1 << rapid.UintRange(0, 63).Draw(t, "bit")
			}
		}
		h.signGCA(&a)
		if field == "Signature-only" {
			// same content, a second valid GCA signature (another nonce): not the
			// identical authorization, so it is a conflict like any other
			sig, ok := ref.SignWithNonce(s.gca, a.SigningBytes(), rapid.SliceOfN(rapid.Byte(), 4, 4).Draw(t, "nonce"))
			if !ok || sig == s.M.Devices[id].Sig {
				t.Skip("no second signature with this nonce")
			}
			a.Sig = sig
		}
		multi := len(live) >= 2
		if out := s.authorize(a, "conflict:"+field); out != ref.AuthConflict {
			s.fail("harness: conflicting authorization (%s) was %v", field, out)
		}
		delete(h.keys, id)
		if multi {
			h.f.conflictMultiDev = true
		}
		ev.Label(h.o.prop + ":auth-conflict")
		h.checkInvariants()
	case "bad-signature":
		id := rapid.SampledFrom(h.idset).Draw(t, "badID")
		a := h.freshAuth(t, id)
		if cur, ok := s.M.Devices[id]; ok && rapid.Bool().Draw(t, "alterExisting") {
			a = cur
			a.Capacity++
		} else if s.M.Registered {
			h.signGCA(&a)
		}
		switch rapid.IntRange(0, 4).Draw(t, "how") {
		case 4:
			// the signature of a published authorization, kept as it is, under
			// altered content: the same id with one field changed, the same content
			// under another id, or a fresh device of the submitter's own
			if len(live) > 0 && s.M.Registered {
				src := s.M.Devices[rapid.SampledFrom(live).Draw(t, "borrowFrom")]
				switch rapid.IntRange(0, 2).Draw(t, "borrowHow") {
				case 0:
					a = src
					a.Capacity++
				case 1:
					a = src
					a.ShortID = id
					if id == src.ShortID {
						a.Debt++
					}
				}
				a.Sig = src.Sig
				ev.Label(h.o.prop + ":auth-borrowed-signature")
			} else {
				a.Sig[0] ^= 1 // nothing to borrow from
			}
		case 3:
			// the (r, N-s) twin of a genuine GCA signature - for a live device that
			// is its own authorization with 256 bits changed by somebody without the key
			if len(live) > 0 && s.M.Registered {
				a = s.M.Devices[rapid.SampledFrom(live).Draw(t, "twinOf")]
			}
			a.Sig = ref.HighSTwin(a.Sig)
		case 0:
			pos := rapid.IntRange(0, 511).Draw(t, "sigBit")
			a.Sig[pos/8] ^= 1 << (uint(pos) % 8)
		case 1:
			if s.M.Registered {
				a.Sig = ref.Sign(s.gca, a.Body()) // no type prefix
			}
		default:
			if s.M.Registered {
				a.Sig = ref.Sign(s.gca, append([]byte("EquipmentReport"), a.Body()...))
			}
		}
		s.authorize(a, "bad-signature")
		ev.Label(h.o.prop + ":auth-bad-signature")
	case "foreign-signature":
		id := rapid.SampledFrom(h.idset).Draw(t, "foreignID")
		a := h.freshAuth(t, id)
		snap := s.S.VerifSnapshot()
		signers := []ref.Key{s.temp, {Pub: [32]byte(snap.ServerPub), Priv: [32]byte(snap.ServerPriv)}, keyFor("other-gca")}
		for _, c := range h.cands {
			if c.Pub != s.M.GCA || !s.M.Registered {
				signers = append(signers, c)
			}
		}
		for _, k := range h.keys {
			signers = append(signers, k)
		}
		signers = append(signers, h.keyOfAuth(a))
		if s.M.Registered {
			signers = append(signers, ref.MirrorKey(s.gca)) // private key N-d: same 32-byte public key string, another key
		}
		k := signers[rapid.IntRange(0, len(signers)-1).Draw(t, "signer")]
		a.Sig = ref.Sign(k, a.SigningBytes())
		s.authorize(a, "foreign-signature")
		ev.Label(h.o.prop + ":auth-foreign-signature")
	case "for-banned":
		bans := s.M.BanIDs()
		if len(bans) == 0 {
			t.Skip("no banned id")
		}
		id := rapid.SampledFrom(bans).Draw(t, "bannedID")
		a := h.freshAuth(t, id)
		h.signGCA(&a)
		if out := s.authorize(a, "for-banned"); out != ref.AuthRefusedBanned {
			s.fail("harness: authorization for banned id was %v", out)
		}
		ev.Label(h.o.prop + ":auth-for-banned")
	}
}

func (h *hist) checkInvariants() {
	s := h.s
	func() {
		defer func() {
			if r := recover(); r != nil {
				s.fail("the server's own consistency check fails: %v", r)
			}
		}()
		s.S.S.CheckInvariants()
	}()
}

func (h *hist) actReport(t *rapid.T) {
	s := h.s
	live := h.liveIDs()
	if len(live) == 0 && len(s.M.Bans) == 0 {
		t.Skip("no device")
	}
	// mostly acceptable reports; sometimes for banned ids or with bad slots
	if len(s.M.Bans) > 0 && rapid.IntRange(0, 5).Draw(t, "toBanned") == 0 {
		id := rapid.SampledFrom(s.M.BanIDs()).Draw(t, "bannedID")
		k := keyFor(fmt.Sprintf("dev-%d-g%d", id, 1))
		r := ref.SignedReport(k, id, s.now, 500)
		if v := s.datagram(r.Encode(), "report-for-banned-id"); v.Accept {
			s.fail("harness: report for banned id judged acceptable")
		}
		return
	}
	if len(live) == 0 {
		t.Skip("no live device")
	}
	id := rapid.SampledFrom(live).Draw(t, "dev")
	k := h.keys[id]
	var slot uint32
	if rapid.IntRange(0, 4).Draw(t, "slotKind") <= 1 {
		slot = drawSlot(t, s.now, s.M.Offset, "slot")
	} else {
		lo, hi := int64(s.now)-432, int64(s.now)+432
		if lo < int64(s.M.Offset) {
			lo = int64(s.M.Offset)
		}
		if hi > int64(s.M.Offset)+4031 {
			hi = int64(s.M.Offset) + 4031
		}
		if lo > hi {
			slot = s.now
		} else {
			slot = uint32(rapid.Int64Range(lo, hi).Draw(t, "slotIn"))
		}
	}
	p := drawPower(t, s.M.Devices[id].Capacity, "power")
	v := s.datagram(ref.SignedReport(k, id, slot, p).Encode(), "report")
	if v.Accept {
		h.f.trafficSinceRotation = true
		ev.Label(h.o.prop + ":report-accepted")
	}
	// now and then the same content arrives once more under a SECOND valid
	// signature of the device (another nonce): a different datagram, so the
	// slot is banned - and has to stay banned when the log is replayed
	if rapid.IntRange(0, 9).Draw(t, "resignedTwin") == 0 {
		r := ref.Report{ShortID: id, Timeslot: slot, Power: p}
		if sig, ok := ref.SignWithNonce(k, r.SigningBytes(), rapid.SliceOfN(rapid.Byte(), 4, 4).Draw(t, "twinNonce")); ok {
			r.Sig = sig
			s.datagram(r.Encode(), "report-resigned-twin")
			ev.Label(h.o.prop + ":report-resigned-twin")
		}
	}
}

func (h *hist) actClock(t *rapid.T) {
	s := h.s
	o := int64(s.M.Offset)
	var now int64
	switch rapid.SampledFrom([]string{"small", "small", "boundary", "week", "back", "nearSlotBoundary", "nearSlotBoundary"}).Draw(t, "clockKind") {
	case "nearSlotBoundary":
		// within reach of the first slot, the first slot of the second half, or the last slot of the window
		now = o + rapid.SampledFrom([]int64{0, 2016, 2016, 4031}).Draw(t, "slotBoundary") + rapid.Int64Range(-432, 432).Draw(t, "reach")
	case "small":
		now = int64(s.now) + rapid.Int64Range(1, 300).Draw(t, "delta")
	case "boundary":
		now = o + rapid.SampledFrom([]int64{3199, 3200, 3201, 3599, 3600, 3999}).Draw(t, "boundary")
	case "week":
		now = int64(s.now) + 2016
	default:
		now = int64(s.now) - rapid.Int64Range(1, 50).Draw(t, "deltaBack")
	}
	if now < o {
		now = o
	}
	if now > o+3999 { // beyond this a restart would catch up; at run time the loop decides
		now = o + 3999
	}
	s.setClock(uint32(now))
}

func (h *hist) noteRotation() {
	s := h.s
	h.f.rotations++
	w := s.M.Archive[len(s.M.Archive)-1]
	for _, p := range w.Devices {
		for _, v := range p {
			if v != 0 {
				h.f.rotationWithData = true
			}
		}
	}
	h.f.trafficSinceRotation = false
	ev.Label(h.o.prop + ":rotation")
}

func (h *hist) actStepMigrate(t *rapid.T) {
	before := len(h.s.M.Archive)
	if h.s.stepMigrate() {
		for i := before; i < len(h.s.M.Archive); i++ {
			h.noteRotation()
		}
	}
}

func (h *hist) actRestart(t *rapid.T) {
	s := h.s
	o := int64(s.M.Offset)
	var now int64
	switch rapid.SampledFrom([]string{"same", "same", "one-rotation", "several-rotations", "near-edge"}).Draw(t, "restartClock") {
	case "same":
		now = int64(s.now)
	case "one-rotation":
		now = o + 4000 + rapid.Int64Range(0, 2015).Draw(t, "phase")
	case "several-rotations":
		now = o + 4000 + 2016*rapid.Int64Range(1, 4).Draw(t, "weeks") + rapid.Int64Range(0, 2015).Draw(t, "phase")
	default:
		now = o + rapid.Int64Range(3200, 3999).Draw(t, "edge")
	}
	if !h.o.allowRotation && now > o+3999 {
		now = int64(s.now)
	}
	h.restartAt(uint32(now))
}

func (h *hist) restartAt(now uint32) {
	s := h.s
	f := &h.f
	if len(s.M.Bans) > 0 {
		f.restartWithBan = true
	}
	for _, slots := range s.M.Live {
		for i := range slots {
			if slots[i].Banned {
				f.restartWithSlotBan = true
			}
		}
	}
	if len(s.M.Archive) > 0 {
		f.restartWithArchive = true
	}
	before := len(s.M.Archive)
	s.restart(now)
	for i := before; i < len(s.M.Archive); i++ {
		h.noteRotation()
	}
	f.restarts++
	ev.Label(h.o.prop + ":restart")
	// idempotence: an immediate second restart changes nothing
	if rapid.IntRange(0, 3).Draw(s.t.(*rapid.T), "doubleRestart") == 0 {
		n := len(s.M.Archive)
		s.restart(now)
		if len(s.M.Archive) != n {
			s.fail("a second restart at the same clock rotated again")
		}
		f.restarts++
	}
}

func (h *hist) actStats(t *rapid.T) {
	s := h.s
	m := s.M
	snap := s.S.VerifSnapshot()
	serverPub := [32]byte(snap.ServerPub)
	kinds := []string{"live0", "live1", "future", "misaligned", "garbage"}
	if len(m.Archive) > 0 {
		kinds = append(kinds, "archived", "archived", "archived")
	}
	extra := rapid.SampledFrom([]string{"", "", "&insert_false_negatives=true", "&insert_false_negatives=false", "&foo=bar&insert_false_negatives=1", "&insert_false_negatives=true&insert_false_negatives=false"}).Draw(t, "params")
	switch kind := rapid.SampledFrom(kinds).Draw(t, "statsKind"); kind {
	case "archived":
		k := rapid.IntRange(0, len(m.Archive)-1).Draw(t, "week")
		if extra == "" {
			if _, seen := s.firstSeen[uint32(k)]; seen && h.f.trafficSinceRotation {
				h.f.queriedArchivedAfter = true
			}
			s.logf("GET stats archived week %d", k)
			s.checkArchivedServed(k, serverPub)
		} else {
			s.logf("GET stats archived week %d %s", k, extra)
			w, st, body := s.getStats(fmt.Sprint(k*ref.WeekSlots), extra)
			if st != 200 {
				s.fail("archived week %d with parameters %q refused: %d %s", k, extra, st, body)
			}
			if w.Offset != uint32(k*ref.WeekSlots) {
				s.fail("archived week %d served with label %d", k, w.Offset)
			}
			if extra == "&insert_false_negatives=true" || extra == "&insert_false_negatives=true&insert_false_negatives=false" {
				h.f.falseNegQuery = true
			}
			// the stored record must be untouched by the query
			s.compare(s.S.VerifSnapshot(), "parameterised stats query")
			s.checkArchivedServed(k, serverPub)
		}
	case "live0", "live1":
		x := 0
		if kind == "live1" {
			x = 1
		}
		s.logf("GET stats live week %d %s", x, extra)
		w, st, body := s.getStats(fmt.Sprint(int(m.Offset)+x*ref.WeekSlots), extra)
		if st != 200 {
			s.fail("live week %d refused: %d %s", x, st, body)
		}
		if extra == "" || extra == "&insert_false_negatives=false" || extra == "&foo=bar&insert_false_negatives=1" {
			s.compareWeek(w, s.liveModelWeek(x, snap), serverPub, fmt.Sprintf("served live week %d", x))
		}
		s.compare(s.S.VerifSnapshot(), "live stats query")
	case "future":
		q := fmt.Sprint(int64(m.Offset) + 2*ref.WeekSlots + 2016*rapid.Int64Range(0, 3).Draw(t, "ahead"))
		s.logf("GET stats future week %s", q)
		if _, st, _ := s.getStats(q, extra); st == 200 {
			s.fail("future week %s served", q)
		}
		s.compare(s.S.VerifSnapshot(), "future stats query")
	case "misaligned":
		// anywhere: inside an archived week, inside either live week, beyond
		base := int64(m.Offset)
		if len(m.Archive) > 0 && rapid.Bool().Draw(t, "misInArchive") {
			base = int64(ref.WeekSlots) * int64(rapid.IntRange(0, len(m.Archive)-1).Draw(t, "misWeek"))
		} else {
			base += int64(ref.WeekSlots) * int64(rapid.IntRange(0, 2).Draw(t, "misLive"))
		}
		q := fmt.Sprint(base + rapid.Int64Range(1, 2015).Draw(t, "mis"))
		s.logf("GET stats misaligned %s", q)
		if _, st, _ := s.getStats(q, extra); st == 200 {
			s.fail("misaligned week %s served", q)
		}
	default:
		q := rapid.SampledFrom([]string{"abc", "-2016", "4294967296", "4294969312", "", "2016.0", "0x7e0", "18446744073709551616"}).Draw(t, "junk")
		s.logf("GET stats garbage %q", q)
		if _, st, _ := s.getStats(q, extra); st == 200 {
			s.fail("statistics served for week %q", q)
		}
	}
}

// ---- C07: registration attempts and authority probes ----------------------

func (h *hist) actRegister(t *rapid.T) {
	s := h.s
	h.f.regAttempts++
	cand := rapid.SampledFrom(h.cands).Draw(t, "candidate")
	kind := rapid.SampledFrom([]string{"valid", "valid", "wrong-signer-self", "wrong-signer-server", "wrong-signer-random", "altered-key", "by-gca"}).Draw(t, "regKind")
	snap := s.S.VerifSnapshot()
	srvKey := ref.Key{Pub: [32]byte(snap.ServerPub), Priv: [32]byte(snap.ServerPriv)}
	switch kind {
	case "valid":
		s.register(cand, s.temp, !s.M.Registered)
	case "wrong-signer-self":
		s.register(cand, cand, false)
	case "wrong-signer-server":
		s.register(cand, srvKey, false)
	case "wrong-signer-random":
		s.register(cand, keyFor("nobody"), false)
	case "by-gca":
		if !s.M.Registered {
			t.Skip("no GCA yet")
		}
		s.register(keyFor("gca-replacement"), s.gca, false)
	case "altered-key":
		// signature by the temp key over one key, submitted with another
		reg := ref.Registration{GCAKey: cand.Pub}
		reg.Sig = ref.Sign(s.temp, reg.SigningBytes())
		other := keyFor("gca-altered")
		s.logf("register(altered key)")
		st, _, err := s.S.PostJSON("/api/v1/register-gca", map[string]interface{}{"GCAKey": other.Pub, "Signature": reg.Sig})
		if err != nil {
			s.fail("request failed: %v", err)
		}
		if st == 200 {
			s.fail("registration whose key was altered after signing was accepted")
		}
		s.compare(s.S.VerifSnapshot(), "altered registration")
	}
	ev.Label("C07:reg-" + kind)
}

func (h *hist) actRegisterBatch(t *rapid.T) {
	s := h.s
	n := rapid.IntRange(2, 8).Draw(t, "batch")
	h.f.batch = true
	h.f.regAttempts += n
	s.logf("register batch of %d concurrent valid registrations", n)
	type res struct {
		k  ref.Key
		st int
	}
	out := make([]res, n)
	var wg sync.WaitGroup
	start := make(chan struct{})
	for i := 0; i < n; i++ {
		k := keyFor(fmt.Sprintf("batch-cand-%d", i))
		out[i].k = k
		wg.Add(1)
		go func(i int) {
			defer wg.Done()
			<-start
			st, _, err := s.S.Register(out[i].k.Pub, s.temp)
			if err != nil {
				st = -1
			}
			out[i].st = st
		}(i)
	}
	// concurrently, every candidate tries to use GCA authority: such a request
	// may only be honoured if it is signed by the (eventual) winner
	probeSt := make([]int, n)
	before := s.S.VerifSnapshot()
	for i := 0; i < n; i++ {
		wg.Add(1)
		go func(i int) {
			defer wg.Done()
			<-start
			as := ref.AuthServer{PublicKey: keyFor(fmt.Sprintf("batch-peer-%d", i)).Pub, Location: "127.0.0.1", HttpPort: 1, TcpPort: 1, UdpPort: 1}
			as.Sig = ref.Sign(out[i].k, as.SigningBytes())
			st, _, err := s.S.PostJSON("/api/v1/authorized-servers", world.ToGlowServer(as))
			if err != nil {
				st = -1
			}
			probeSt[i] = st
		}(i)
	}
	close(start)
	wg.Wait()
	s.checkPanics("registration batch")
	after := s.S.VerifSnapshot()
	for i := 0; i < n; i++ {
		if probeSt[i] == -1 {
			s.fail("an authority probe of the batch failed at transport level")
		}
		honoured := false
		for _, x := range after.Servers {
			if [32]byte(x.PublicKey) == keyFor(fmt.Sprintf("batch-peer-%d", i)).Pub {
				honoured = true
			}
		}
		for _, x := range before.Servers {
			if [32]byte(x.PublicKey) == keyFor(fmt.Sprintf("batch-peer-%d", i)).Pub {
				honoured = false // was there before
			}
		}
		if (honoured || probeSt[i] == 200) && !(after.GCAAvailable && [32]byte(after.GCAKey) == out[i].k.Pub) {
			if !(probeSt[i] == 200 && !honoured && after.GCAAvailable && [32]byte(after.GCAKey) == out[i].k.Pub) {
				s.fail("server authorization signed by candidate %d was honoured (status %d, listed %v) although the registered GCA is another key", i, probeSt[i], honoured)
			}
		}
	}
	oks := 0
	var winner ref.Key
	for _, r := range out {
		if r.st == -1 {
			s.fail("a registration request of the batch failed at transport level")
		}
		if r.st == 200 {
			oks++
			winner = r.k
		}
	}
	if s.M.Registered {
		if oks != 0 {
			s.fail("%d registrations accepted although a GCA key was already registered", oks)
		}
	} else {
		if oks != 1 {
			s.fail("%d of %d concurrent valid registrations were accepted, exactly one must be", oks, n)
		}
		s.M.Registered = true
		s.M.GCA = winner.Pub
		s.gca = winner
		h.cands = append(h.cands, out[0].k, out[1].k)
	}
	s.compare(s.S.VerifSnapshot(), "registration batch")
	ev.Label("C07:reg-batch")
}

// actAuthorityProbe: server authorizations and migration orders signed by
// every key around; only the registered GCA's signature may be honoured.
func (h *hist) actAuthorityProbe(t *rapid.T) {
	s := h.s
	snap := s.S.VerifSnapshot()
	signers := []ref.Key{s.temp, {Pub: [32]byte(snap.ServerPub), Priv: [32]byte(snap.ServerPriv)}}
	signers = append(signers, h.cands...)
	k := signers[rapid.IntRange(0, len(signers)-1).Draw(t, "signer")]
	isGCA := s.M.Registered && k.Pub == s.M.GCA
	if rapid.Bool().Draw(t, "serverOrMigration") {
		as := ref.AuthServer{PublicKey: keyFor(fmt.Sprintf("peer-%d", rapid.IntRange(0, 5).Draw(t, "peer"))).Pub, Location: "127.0.0.1", HttpPort: 1, TcpPort: 1, UdpPort: 1}
		as.Sig = ref.Sign(k, as.SigningBytes())
		s.logf("POST authorized-servers signed by %x.. (gca=%v)", k.Pub[:4], isGCA)
		before := len(snap.Servers)
		st, _, err := s.S.PostJSON("/api/v1/authorized-servers", world.ToGlowServer(as))
		s.checkPanics("POST authorized-servers")
		if err != nil {
			s.fail("request failed: %v", err)
		}
		after := s.S.VerifSnapshot()
		known := false
		for _, x := range snap.Servers {
			if [32]byte(x.PublicKey) == as.PublicKey {
				known = true
			}
		}
		if !isGCA && (st == 200 || len(after.Servers) != before) {
			s.fail("server authorization signed by a key that is not the registered GCA was honoured (status %d)", st)
		}
		if isGCA && !known && (st != 200 || len(after.Servers) != before+1) {
			s.fail("server authorization signed by the GCA was not honoured (status %d)", st)
		}
		ev.Label("C07:probe-server")
	} else {
		em := ref.Migration{Equipment: keyFor("dev-1-g1").Pub, NewGCA: keyFor("new-gca").Pub, NewShortID: 5}
		ns := ref.AuthServer{PublicKey: keyFor("new-peer").Pub, Location: "127.0.0.1", HttpPort: 2, TcpPort: 2, UdpPort: 2}
		ns.Sig = ref.Sign(keyFor("new-gca"), ns.SigningBytes())
		em.NewServers = []ref.AuthServer{ns}
		em.Sig = ref.Sign(k, em.SigningBytes())
		s.logf("POST equipment-migrate signed by %x.. (gca=%v)", k.Pub[:4], isGCA)
		st, _, err := s.S.PostJSON("/api/v1/equipment-migrate", world.ToGlowMigration(em))
		s.checkPanics("POST equipment-migrate")
		if err != nil {
			s.fail("request failed: %v", err)
		}
		after := s.S.VerifSnapshot()
		_, have := after.Migrations[[32]byte(em.Equipment)]
		_, had := snap.Migrations[[32]byte(em.Equipment)]
		if !isGCA && (st == 200 || (have && !had)) {
			s.fail("migration order signed by a key that is not the registered GCA was honoured (status %d)", st)
		}
		if isGCA && (st != 200 || !have) {
			s.fail("migration order signed by the GCA was not honoured (status %d)", st)
		}
		ev.Label("C07:probe-migration")
		if stored, ok := after.Migrations[[32]byte(em.Equipment)]; ok {
			// an order that borrows the SIGNATURE of the stored, genuine order for
			// other content (another new GCA, id and servers): only the GCA's
			// signature over exactly that content may be honoured
			evil := keyFor("attacker-gca")
			forged := ref.Migration{Equipment: em.Equipment, NewGCA: evil.Pub, NewShortID: 99}
			fs := ref.AuthServer{PublicKey: keyFor("attacker-peer").Pub, Location: "127.0.0.1", HttpPort: 2, TcpPort: 2, UdpPort: 2}
			fs.Sig = ref.Sign(evil, fs.SigningBytes())
			forged.NewServers = []ref.AuthServer{fs}
			forged.Sig = [64]byte(stored.Signature)
			s.logf("POST equipment-migrate with the stored order's signature over other content")
			st, _, err := s.S.PostJSON("/api/v1/equipment-migrate", world.ToGlowMigration(forged))
			s.checkPanics("POST equipment-migrate (borrowed signature)")
			if err != nil {
				s.fail("request failed: %v", err)
			}
			now := s.S.VerifSnapshot().Migrations[[32]byte(em.Equipment)]
			if st == 200 || !bytes.Equal(now.Serialize(), stored.Serialize()) {
				s.fail("a migration order that reuses the stored order's signature for other content was honoured (status %d)", st)
			}
			ev.Label("C07:probe-migration-borrowed-signature")
		}
	}
	s.compare(s.S.VerifSnapshot(), "authority probe")
}

// bannedChecks: a banned id is gone from every public view.
func (h *hist) bannedChecks() {
	s := h.s
	for id := range s.M.Bans {
		for g := 1; g <= h.gen[id]; g++ {
			k := keyFor(fmt.Sprintf("dev-%d-g%d", id, g))
			// the key may legitimately belong to another live device (conflict that reused a key)
			owned := false
			for _, a := range s.M.Devices {
				if a.PublicKey == k.Pub {
					owned = true
				}
			}
			if owned {
				continue
			}
			st, _, err := s.S.Get("/api/v1/recent-reports?publicKey=" + hex.EncodeToString(k.Pub[:]))
			if err != nil {
				s.fail("request failed: %v", err)
			}
			if st == 200 {
				s.fail("recent-reports still answers for a key of banned id %d", id)
			}
		}
	}
}

func (h *hist) run(t *rapid.T) {
	s := h.s
	o := h.o
	actions := map[string]func(*rapid.T){
		"authorize": h.actAuthorize,
		"report":    h.actReport,
		"bulk":      h.actBulk,
		"clock":     h.actClock,
		"restart":   h.actRestart,
	}
	if o.allowRotation {
		actions["stepMigrate"] = h.actStepMigrate
	}
	if o.allowImpact {
		actions["stepImpact"] = func(t *rapid.T) {
			if int64(s.now) < int64(s.M.Offset) {
				t.Skip("clock before window")
			}
			s.stepImpact()
		}
	}
	if o.allowStatsQuery {
		actions["stats"] = h.actStats
	}
	if o.allowRegProbes {
		actions["register"] = h.actRegister
		actions["probe"] = h.actAuthorityProbe
	}
	if o.allowBatches {
		actions["registerBatch"] = h.actRegisterBatch
	}
	actions["crossCheck"] = func(t *rapid.T) {
		if rapid.IntRange(0, 2).Draw(t, "doCross") != 0 {
			t.Skip("skipped")
		}
		s.crossCheckAPI()
		h.bannedChecks()
		h.checkInvariants()
	}
	wrapped := map[string]func(*rapid.T){}
	for name, fn := range actions {
		name, fn := name, fn
		w := 1
		if o.weights != nil {
			if x, ok := o.weights[name]; ok {
				w = x
			}
		}
		for i := 0; i < w; i++ {
			nm := name
			if i > 0 {
				nm = fmt.Sprintf("%s#%d", name, i)
			}
			wrapped[nm] = func(t *rapid.T) {
				fn(t)
				h.steps++
				ev.Eval(1)
				if o.restartEvery && name != "restart" && name != "crossCheck" {
					h.restartAt(s.now)
				}
			}
		}
	}
	// "" runs after every step
	wrapped[""] = func(t *rapid.T) {}
	t.Repeat(wrapped)
	s.crossCheckAPI()
	h.bannedChecks()
	h.checkInvariants()
	s.close()
}
