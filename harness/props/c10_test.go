//go:build test && verif

package props

// C10 - sync replies parse to the server's data and are accepted only when
// authentic. A real server is brought into a generated state; a real client
// (same device key) parses the genuine reply; then mutations of the captured
// genuine reply are served to the client by a fake endpoint and must be
// rejected without any change of client state - unless the reference
// acceptance rule says the mutated reply is still authentic (e.g. a timestamp
// shift inside the 24 h window that was re-signed with the server's own key).

import (
	"bytes"
	"encoding/binary"
	"fmt"
	"math"
	"os"
	"path/filepath"
	"sync"
	"testing"
	"time"

	"github.com/glowlabs-org/gca-backend/client"
	"github.com/glowlabs-org/gca-backend/glow"
	"github.com/glowlabs-org/gca-backend/server"
	"pgregory.net/rapid"

	"verif/harness/ev"
	"verif/harness/ref"
	"verif/harness/world"
)

type c10World struct {
	t      *rapid.T
	w      *world1
	s      *sess
	devID  uint32
	devKey ref.Key
	c      *client.Client
	cdir   string
	fake   *world.FakeServer
	mu     sync.Mutex
	serve  []byte
	srvKey ref.Key
	hist   []string
}

func regionOf(pos, n int) string {
	switch {
	case pos < 32:
		return "device-key"
	case pos < 36:
		return "offset"
	case pos < 540:
		return "bitfield"
	case pos < 572:
		return "new-gca"
	case pos < 576:
		return "new-id"
	case pos >= n-64:
		return "server-signature"
	case pos >= n-72:
		return "timestamp"
	case pos >= n-136:
		return "gca-signature"
	default:
		return "servers"
	}
}

func (c *c10World) clientFiles() map[string][]byte {
	out := map[string][]byte{}
	for _, f := range []string{"gcaPubKey.dat", "shortID.dat", "gcaServers.dat", "clientKeys.dat"} {
		b, _ := os.ReadFile(filepath.Join(c.cdir, f))
		out[f] = b
	}
	return out
}

func TestC10SyncReplies(t *testing.T) {
	ev.Rule("C10: per case a server state (window week 0..2, reports of the device at drawn slots incl. window edges 0 and 4031 and banned slots, 0-4 GCA-signed authorized servers with locations of length 0..255 and banned flags (in half of the cases one of them is the contacted server itself), or a GCA-signed migration order with 0-3 servers signed by the new GCA) and a client with the same device key; oracle for the genuine reply: the client's parse equals the snapshot (offset, bit i <=> record in slot i, migration target, server list) and the reference decoder agrees; unknown id => refusal. Then mutations of the captured reply served by a fake endpoint: single-bit flips (sampled per region; exhaustive in the thorough tier), truncation, extension, re-signing by other keys, timestamp shifts re-signed with the server's key (tolerance +-5 s around 24 h), a genuine reply for another device, entry or migration signatures replaced; oracle: rejected unless the reference acceptance rule accepts, and a full sync round against a rejected reply leaves GCA key, short id, server map and the client files unchanged; non-trivial = genuine reply with an edge bit, a server entry or a migration, and every tampered reply (distinct by mutation kind and layout region)")
	rapid.Check(t, func(t *rapid.T) {
		k := rapid.IntRange(0, 2).Draw(t, "week")
		w := buildWorld(t, "C10", k, 2, false)
		s := w.s
		defer s.cleanup()
		cw := &c10World{t: t, w: w, s: s, devID: w.devs[0], devKey: w.devKey[w.devs[0]], srvKey: w.srvKey}
		// reports: edges and random slots, some banned
		type put struct {
			idx   int
			power uint64
			twice bool
		}
		var puts []put
		for i, n := 0, rapid.IntRange(0, 12).Draw(t, "reports"); i < n; i++ {
			idx := rapid.SampledFrom([]int{0, 1, 7, 8, 2015, 2016, 4030, 4031, rapid.IntRange(0, 4031).Draw(t, "idx")}).Draw(t, "idxPick")
			// values: ordinary, the client's sentinels 2 and 3, negative readings
			// (two's complement, top bit set), the largest positive value, anything
			power := rapid.SampledFrom([]uint64{100 + uint64(i), 100 + uint64(i), 2, 3, 1 << 63, math.MaxUint64, math.MaxUint64 - 4999, math.MaxInt64, rapid.Uint64Range(2, math.MaxUint64).Draw(t, "anyPower")}).Draw(t, "power")
			puts = append(puts, put{idx, power, rapid.IntRange(0, 4).Draw(t, "equivocate") == 0})
		}
		edge := false
		for _, p := range puts {
			slot := s.M.Offset + uint32(p.idx)
			s.setClock(slot)
			s.datagram(ref.SignedReport(cw.devKey, cw.devID, slot, p.power).Encode(), "report")
			if p.twice {
				s.datagram(ref.SignedReport(cw.devKey, cw.devID, slot, p.power+1000).Encode(), "second report")
			}
			if p.idx == 0 || p.idx == 4031 {
				edge = true
			}
		}
		s.setClock(s.M.Offset + 100)
		// authorized servers or a migration order
		var wantServers []ref.AuthServer
		var migration *ref.Migration
		mode := rapid.SampledFrom([]string{"servers", "servers", "migration", "none"}).Draw(t, "mode")
		switch mode {
		case "servers":
			for i, n := 0, rapid.IntRange(0, 4).Draw(t, "nServers"); i < n; i++ {
				as := ref.AuthServer{PublicKey: keyFor(fmt.Sprintf("c10-peer-%d", i)).Pub, Banned: rapid.Bool().Draw(t, "banned"), Location: drawLocation(t, 255, "loc"),
					HttpPort: drawU16(t, "hp"), TcpPort: drawU16(t, "tp"), UdpPort: drawU16(t, "up")}
				if i == 0 && rapid.Bool().Draw(t, "listsItself") {
					// the list of a server normally holds the server's own entry
					// (authorizations are forwarded to the servers they name)
					as.PublicKey = w.srvKey.Pub
				}
				as.Sig = ref.Sign(s.gca, as.SigningBytes())
				s.S.S.VerifInstallAuthorizedServer(world.ToGlowServer(as))
				wantServers = append(wantServers, as)
			}
		case "migration":
			ng := keyFor("c10-new-gca")
			m := ref.Migration{Equipment: cw.devKey.Pub, NewGCA: ng.Pub, NewShortID: rapid.Uint32().Draw(t, "newID")}
			for i, n := 0, rapid.IntRange(0, 3).Draw(t, "nNewServers"); i < n; i++ {
				as := ref.AuthServer{PublicKey: keyFor(fmt.Sprintf("c10-newpeer-%d", i)).Pub, Banned: rapid.IntRange(0, 3).Draw(t, "nb") == 0, Location: drawLocation(t, 255, "nloc"), HttpPort: 1, TcpPort: 2, UdpPort: 3}
				as.Sig = ref.Sign(ng, as.SigningBytes())
				m.NewServers = append(m.NewServers, as)
			}
			m.Sig = ref.Sign(s.gca, m.SigningBytes())
			s.S.S.VerifInstallMigration(world.ToGlowMigration(m))
			migration = &m
			wantServers = m.NewServers
		}
		snap := s.S.VerifSnapshot()
		// the client
		client.VerifSetStepping(true)
		entry := ref.ClientServer{Location: "127.0.0.1", HttpPort: s.S.HTTP, TcpPort: s.S.TCP, UdpPort: s.S.UDP}
		cfg := world.ClientCfg{Key: cw.devKey, GCA: s.gca.Pub, ShortID: cw.devID, Energy: "timestamp,energy (mWh)\n",
			Servers: map[[32]byte]ref.ClientServer{w.srvKey.Pub: entry}}
		cw.cdir = world.NewClientDir(cfg)
		defer os.RemoveAll(cw.cdir)
		c, err := world.StartClient(cw.cdir)
		if err != nil {
			t.Fatalf("C10: NewClient: %v", err)
		}
		cw.c = c
		defer world.StopAllLeakedClients()
		defer func() { world.CloseClient(cw.c) }()
		gcas := client.GCAServer{Location: "127.0.0.1", HttpPort: s.S.HTTP, TcpPort: s.S.TCP, UdpPort: s.S.UDP}
		ev.Eval(1)

		// ---- genuine reply ----
		off, bits, newGCA, newID, servers, err := c.VerifServerSync(gcas, glow.PublicKey(w.srvKey.Pub), glow.PublicKey(s.gca.Pub))
		if err != nil {
			s.fail("the client rejects the genuine reply: %v", err)
		}
		if off != snap.Offset {
			s.fail("client parsed window offset %d, server has %d", off, snap.Offset)
		}
		for i := 0; i < 4032; i++ {
			bit := bits[i/8]&(1<<(uint(i)%8)) != 0
			has := snap.Reports[cw.devID][i].PowerOutput > 0
			if bit != has {
				s.fail("client parsed bit %d = %v, the server's record for timeslot %d has power %d", i, bit, int(snap.Offset)+i, snap.Reports[cw.devID][i].PowerOutput)
			}
		}
		if migration != nil {
			if [32]byte(newGCA) != migration.NewGCA || newID != migration.NewShortID {
				s.fail("client parsed migration target %x/%d, the order says %x/%d", newGCA[:4], newID, migration.NewGCA[:4], migration.NewShortID)
			}
		} else if newGCA != (glow.PublicKey{}) || newID != 0 {
			s.fail("client parsed a migration although the server has none")
		}
		if len(servers) != len(wantServers) {
			s.fail("client parsed %d server entries, the server lists %d", len(servers), len(wantServers))
		}
		for i := range servers {
			if !bytes.Equal(world.FromGlowServer(servers[i]).Encode(), wantServers[i].Encode()) {
				s.fail("client parsed server entry %d differently from the server's list", i)
			}
		}
		raw, refused, err := s.S.SyncDevice(cw.devID)
		if err != nil || refused {
			s.fail("could not capture the genuine reply: %v refused=%v", err, refused)
		}
		if _, why := ref.AcceptSyncReply(raw, w.srvKey.Pub, cw.devKey.Pub, s.gca.Pub, time.Now().Unix(), ref.Verify); why != "" {
			s.fail("the genuine reply is not acceptable by the reference rule: %s", why)
		}
		// the request may arrive in pieces (a slow uplink): the answer must be the
		// one for the id as a whole - the device's reply, or the refusal for an id
		// that merely shares its low bytes with a device
		{
			cut := rapid.IntRange(1, 3).Draw(t, "splitAt")
			split, refusedSplit, err := s.S.SyncDeviceSplit(cw.devID, cut)
			if err != nil || refusedSplit {
				s.fail("sync request sent in two pieces (cut after %d bytes) was not answered for the device: err=%v refused=%v", cut, err, refusedSplit)
			}
			rs, err := ref.DecodeSyncReply(split)
			rw, _ := ref.DecodeSyncReply(raw)
			if err != nil || rs.DeviceKey != rw.DeviceKey || rs.Bitfield != rw.Bitfield || rs.Offset != rw.Offset {
				s.fail("sync request sent in two pieces got a different answer than the same request sent at once")
			}
			alias := cw.devID + uint32(rapid.IntRange(1, 255).Draw(t, "aliasHigh"))<<(8*uint(rapid.IntRange(1, 3).Draw(t, "aliasByte")))
			if _, isDev := s.M.Devices[alias]; !isDev {
				if _, refusedAlias, err := s.S.SyncDeviceSplit(alias, cut); err != nil || !refusedAlias {
					s.fail("sync for the unknown id %#x sent in two pieces (cut after %d bytes) must be refused (err=%v refused=%v)", alias, cut, err, refusedAlias)
				}
			}
			ev.Label("c10:split-request")
		}
		// unknown id
		if _, refused, err := s.S.SyncDevice(rapid.SampledFrom([]uint32{0, 999, math.MaxUint32, 77}).Draw(t, "unknownID")); err != nil || !refused {
			s.fail("sync for an unknown id must answer the refusal byte (err=%v refused=%v)", err, refused)
		}
		if edge || len(wantServers) > 0 || migration != nil {
			ev.NonTrivial(fmt.Sprintf("c10|genuine|%x", ref.Keccak(raw[:len(raw)-72])))
			ev.Label("c10:genuine-nontrivial")
			ev.Sample("c10:genuine", map[string]interface{}{"mode": mode, "servers": len(wantServers), "reply_bytes": len(raw), "reports": len(puts), "edge_bit": edge, "offset": snap.Offset})
		}
		// genuine reply for the other device (validly signed, bound to another key)
		otherRaw, _, _ := s.S.SyncDevice(w.devs[1])

		// ---- tampered replies ----
		cw.fake = world.NewFakeServer(keyFor("c10-fake"))
		defer cw.fake.Close()
		cw.fake.SetBehaviour(func(int, []byte) world.Action {
			cw.mu.Lock()
			defer cw.mu.Unlock()
			return world.Action{Kind: "raw", Raw: cw.serve}
		})
		fakeEntry := client.GCAServer{Location: "127.0.0.1", HttpPort: 1, TcpPort: cw.fake.Port, UdpPort: 9}
		try := func(body []byte, framed []byte, kind, region string) {
			cw.mu.Lock()
			if framed != nil {
				cw.serve = framed
			} else {
				cw.serve = world.Frame(body)
			}
			cw.mu.Unlock()
			now := time.Now().Unix()
			_, w1 := ref.AcceptSyncReply(body, w.srvKey.Pub, cw.devKey.Pub, s.gca.Pub, now-5, ref.Verify)
			_, w2 := ref.AcceptSyncReply(body, w.srvKey.Pub, cw.devKey.Pub, s.gca.Pub, now+5, ref.Verify)
			if framed != nil {
				w1, w2 = "bad framing", "bad framing"
			}
			var perr error
			var poff uint32
			func() {
				defer func() {
					if r := recover(); r != nil {
						s.fail("client panicked on a %s reply (%s): %v", kind, region, r)
					}
				}()
				poff, _, _, _, _, perr = c.VerifServerSync(fakeEntry, glow.PublicKey(w.srvKey.Pub), glow.PublicKey(s.gca.Pub))
			}()
			ev.Eval(1)
			ev.NonTrivial("c10|tamper|" + kind + "|" + region)
			ev.Label("c10:tamper-" + kind)
			switch {
			case w1 != "" && w2 != "":
				if perr == nil {
					s.fail("client accepted a tampered reply: %s in region %s (reference: %s)", kind, region, w1)
				}
			case w1 == "" && w2 == "":
				if perr != nil {
					s.fail("client rejected a reply that is authentic by the rules (%s, %s): %v", kind, region, perr)
				}
				if r, _ := ref.DecodeSyncReply(body); r.Offset != poff {
					s.fail("client parsed offset %d from an authentic reply that says %d", poff, r.Offset)
				}
				ev.Label("c10:tamper-still-authentic")
			default:
				ev.Label("c10:tamper-uncertain-timestamp")
			}
		}
		resign := func(body []byte, k ref.Key) []byte {
			b := append([]byte(nil), body[:len(body)-64]...)
			sig := ref.Sign(k, b)
			return append(b, sig[:]...)
		}
		n := len(raw)
		// bit flips
		flips := pick(40, 120)
		if thorough() && rapid.IntRange(0, 7).Draw(t, "exhaustiveFlips") == 0 {
			for pos := 0; pos < n*8; pos++ {
				b := append([]byte(nil), raw...)
				b[pos/8] ^= 1 << (uint(pos) % 8)
				try(b, nil, "bit-flip", regionOf(pos/8, n))
			}
			ev.Exhaustive("c10: all single-bit flips of a genuine reply")
			flips = 0
		}
		for i := 0; i < flips; i++ {
			var pos int
			switch rapid.IntRange(0, 3).Draw(t, "flipRegion") {
			case 0:
				pos = rapid.IntRange(0, 575).Draw(t, "flipFixed")
			case 1:
				pos = rapid.IntRange(n-136, n-1).Draw(t, "flipTrailer")
			default:
				pos = rapid.IntRange(0, n-1).Draw(t, "flipAny")
			}
			b := append([]byte(nil), raw...)
			b[pos] ^= 1 << uint(rapid.IntRange(0, 7).Draw(t, "flipBit"))
			try(b, nil, "bit-flip", regionOf(pos, n))
		}
		// truncation / extension with a consistent prefix
		for i := 0; i < 4; i++ {
			cut := rapid.IntRange(1, n).Draw(t, "cut")
			try(raw[:n-cut], nil, "truncated", fmt.Sprintf("cut-%d", bucketLen(cut)))
		}
		ext := rapid.SliceOfN(rapid.Byte(), 1, 200).Draw(t, "ext")
		try(append(append([]byte(nil), raw...), ext...), nil, "extended", "tail")
		// inconsistent prefix (announces more than is sent)
		fr := world.Frame(raw)
		binary.LittleEndian.PutUint16(fr, uint16(n+rapid.IntRange(1, 300).Draw(t, "over")))
		try(raw, fr, "length-prefix-too-large", "prefix")
		// re-signed by other keys
		for _, k := range []ref.Key{s.gca, cw.devKey, keyFor("fresh"), s.temp, keyFor("c10-fake")} {
			try(resign(raw, k), nil, "resigned-by-other-key", "server-signature")
		}
		// timestamp shifts, re-signed with the server's real key
		// ... and shifts so large that a difference scaled to nanoseconds, or taken
		// in fewer bits, wraps around (timestamps are 64-bit seconds on the wire)
		far := []int64{1 << 31, 1 << 32, -(1 << 32), 1 << 55, -(1 << 55), 1<<55 + 3600, 1 << 62, math.MinInt64, 1 << (32 + rapid.IntRange(0, 30).Draw(t, "farBit")), -(1 << (32 + rapid.IntRange(0, 30).Draw(t, "farBitNeg")))}
		for _, d := range append([]int64{-24*3600 - 3600, -24*3600 - 20, -24*3600 + 20, -3600, 3600, 24*3600 - 20, 24*3600 + 20, 24*3600 + 3600, rapid.Int64Range(-200000, 200000).Draw(t, "shift")}, far...) {
			b := append([]byte(nil), raw...)
			binary.LittleEndian.PutUint64(b[n-72:], uint64(time.Now().Unix()+d))
			try(resign(b, w.srvKey), nil, "timestamp-shift-resigned", fmt.Sprintf("shift-%dh", d/3600))
		}
		// a genuine reply for another device
		try(otherRaw, nil, "reply-for-other-device", "device-key")
		// entry / migration signatures replaced, outer signature kept valid
		if len(wantServers) > 0 {
			r, _ := ref.DecodeSyncReply(raw)
			i := rapid.IntRange(0, len(r.Servers)-1).Draw(t, "entry")
			bad := r
			bad.Servers = append([]ref.AuthServer(nil), r.Servers...)
			signer := rapid.SampledFrom([]ref.Key{w.srvKey, cw.devKey, keyFor("fresh"), s.gca}).Draw(t, "entrySigner")
			if migration == nil && signer.Pub == s.gca.Pub {
				signer = w.srvKey
			}
			bad.Servers[i].Sig = ref.Sign(signer, bad.Servers[i].SigningBytes())
			if migration != nil {
				// keep the outer order valid for the altered list, so that only the entry signature is wrong
				m := ref.Migration{Equipment: r.DeviceKey, NewGCA: r.NewGCA, NewShortID: r.NewShortID, NewServers: bad.Servers}
				bad.GCASig = ref.Sign(s.gca, m.SigningBytes())
			}
			bad = world.SignReply(bad, w.srvKey)
			try(bad.Encode(), nil, "entry-signature-replaced", "servers")
		}
		if migration != nil {
			r, _ := ref.DecodeSyncReply(raw)
			bad := r
			signer := rapid.SampledFrom([]ref.Key{w.srvKey, cw.devKey, keyFor("c10-new-gca"), keyFor("fresh")}).Draw(t, "orderSigner")
			m := ref.Migration{Equipment: r.DeviceKey, NewGCA: r.NewGCA, NewShortID: r.NewShortID, NewServers: r.Servers}
			bad.GCASig = ref.Sign(signer, m.SigningBytes())
			bad = world.SignReply(bad, w.srvKey)
			try(bad.Encode(), nil, "migration-order-not-by-gca", "gca-signature")
			// order for another device, correctly signed by the GCA
			m2 := ref.Migration{Equipment: keyFor("another-device").Pub, NewGCA: r.NewGCA, NewShortID: r.NewShortID, NewServers: r.Servers}
			bad2 := r
			bad2.GCASig = ref.Sign(s.gca, m2.SigningBytes())
			bad2 = world.SignReply(bad2, w.srvKey)
			try(bad2.Encode(), nil, "migration-order-for-other-device", "gca-signature")
		}
		// a migration order forged by the contacted server itself (it signs the
		// reply, but it is not the GCA): new GCA of its choosing, servers signed by
		// that key, and an order signature that is blank, constant, random or made
		// with a key other than the current GCA's
		{
			r, _ := ref.DecodeSyncReply(raw)
			rogue := keyFor("c10-rogue-gca")
			forged := r
			forged.NewGCA = rogue.Pub
			forged.NewShortID = drawU32(t, "forgedID")
			forged.Servers = nil
			for i, n := 0, rapid.IntRange(0, 2).Draw(t, "forgedServers"); i < n; i++ {
				e := ref.AuthServer{PublicKey: keyFor(fmt.Sprintf("c10-rogue-srv-%d", i)).Pub, Location: "127.0.0.1", HttpPort: 1, TcpPort: 1, UdpPort: 9}
				e.Sig = ref.Sign(rogue, e.SigningBytes())
				forged.Servers = append(forged.Servers, e)
			}
			m := ref.Migration{Equipment: r.DeviceKey, NewGCA: forged.NewGCA, NewShortID: forged.NewShortID, NewServers: forged.Servers}
			sigKind := rapid.SampledFrom([]string{"blank", "blank", "ones", "random", "by-new-gca", "by-server", "by-device", "stale-genuine"}).Draw(t, "forgedSig")
			switch sigKind {
			case "blank":
				forged.GCASig = [64]byte{}
			case "ones":
				for i := range forged.GCASig {
					forged.GCASig[i] = 0xff
				}
			case "random":
				forged.GCASig = draw64(t, "forgedSigBytes")
			case "by-new-gca":
				forged.GCASig = ref.Sign(rogue, m.SigningBytes())
			case "by-server":
				forged.GCASig = ref.Sign(w.srvKey, m.SigningBytes())
			case "by-device":
				forged.GCASig = ref.Sign(cw.devKey, m.SigningBytes())
			default:
				forged.GCASig = r.GCASig // whatever the genuine reply carried (blank, or an order for other content)
			}
			forged = world.SignReply(forged, w.srvKey)
			try(forged.Encode(), nil, "migration-forged-by-server-"+sigKind, "gca-signature")
		}
		// a complete, genuine-looking reply for ANOTHER device that carries that
		// device's own migration order (correctly signed by the current GCA, new
		// servers signed by the new GCA, the whole reply signed by the contacted
		// server): everything verifies, but it is not for this client
		{
			other := keyFor("c10-other-device-with-order")
			ng := keyFor("c10-other-new-gca")
			foreign := ref.SyncReply{DeviceKey: other.Pub, Offset: snap.Offset, NewGCA: ng.Pub, NewShortID: drawU32(t, "foreignID")}
			for i, n := 0, rapid.IntRange(0, 2).Draw(t, "foreignServers"); i < n; i++ {
				e := ref.AuthServer{PublicKey: keyFor(fmt.Sprintf("c10-foreign-srv-%d", i)).Pub, Location: "127.0.0.1", HttpPort: 1, TcpPort: 1, UdpPort: 9}
				e.Sig = ref.Sign(ng, e.SigningBytes())
				foreign.Servers = append(foreign.Servers, e)
			}
			m := ref.Migration{Equipment: other.Pub, NewGCA: ng.Pub, NewShortID: foreign.NewShortID, NewServers: foreign.Servers}
			foreign.GCASig = ref.Sign(s.gca, m.SigningBytes())
			foreign = world.SignReply(foreign, w.srvKey)
			try(foreign.Encode(), nil, "migration-reply-for-other-device", "device-key")
		}
		// ---- a full sync round against a rejected reply changes nothing ----
		beforeFiles := cw.clientFiles()
		before := c.VerifState()
		// point the client's only server entry to the fake endpoint
		world.CloseClient(cw.c)
		world.WriteServerMap(cw.cdir, map[[32]byte]ref.ClientServer{w.srvKey.Pub: {Location: "127.0.0.1", HttpPort: 1, TcpPort: cw.fake.Port, UdpPort: 9}}, nil)
		cw.c, err = world.StartClient(cw.cdir)
		if err != nil {
			t.Fatalf("C10: restart: %v", err)
		}
		c = cw.c
		beforeFiles = cw.clientFiles()
		before = c.VerifState()
		kind := rapid.SampledFrom([]string{"bit-flip", "resigned", "other-device", "stale"}).Draw(t, "roundKind")
		var body []byte
		switch kind {
		case "bit-flip":
			body = append([]byte(nil), raw...)
			pos := rapid.IntRange(0, n-1).Draw(t, "roundFlip")
			body[pos] ^= 0x10
		case "resigned":
			body = resign(raw, s.gca)
		case "other-device":
			body = otherRaw
		default:
			body = append([]byte(nil), raw...)
			binary.LittleEndian.PutUint64(body[n-72:], uint64(time.Now().Unix()-3*24*3600))
			body = resign(body, w.srvKey)
		}
		cw.mu.Lock()
		cw.serve = world.Frame(body)
		cw.mu.Unlock()
		var ok bool
		func() {
			defer func() {
				if r := recover(); r != nil {
					s.fail("client panicked in a sync round against a %s reply: %v", kind, r)
				}
			}()
			ok = c.VerifSyncOnce(0)
		}()
		if ok {
			s.fail("a sync round against a tampered (%s) reply reported success", kind)
		}
		if !clientLockFree(c) {
			s.fail("client mutex held after the failed round")
		}
		after := c.VerifState()
		if after.GCAPubKey != before.GCAPubKey || after.ShortID != before.ShortID || len(after.Servers) != len(before.Servers) {
			s.fail("a rejected (%s) reply changed the client's GCA key, short id or server list", kind)
		}
		for k, v := range before.Servers {
			if after.Servers[k] != v {
				s.fail("a rejected (%s) reply changed the client's entry for server %x", kind, k[:4])
			}
		}
		afterFiles := cw.clientFiles()
		for f, b := range beforeFiles {
			if !bytes.Equal(afterFiles[f], b) {
				s.fail("a rejected (%s) reply changed the client file %s", kind, f)
			}
		}
		ev.Label("c10:full-round-" + kind)
		s.close()
		_ = server.VerifConsts
	})
}

func bucketLen(n int) int {
	switch {
	case n <= 8:
		return n
	case n <= 64:
		return 64
	case n <= 72:
		return 72
	case n <= 136:
		return 136
	default:
		return 1000
	}
}
