//go:build test && verif

package props

import (
	"fmt"
	"math"
	"math/big"
	"os"
	"strings"
	"sync"
	"time"

	"github.com/glowlabs-org/gca-backend/client"
	"github.com/glowlabs-org/gca-backend/server"
	"pgregory.net/rapid"

	"verif/harness/ref"
	"verif/harness/world"
)

// keyGen draws a key pair from rapid-drawn seed bytes (so replays use the
// same keys). A small label space keeps key derivation cheap via the cache.
var keyCache = map[string]ref.Key{}
var keyCacheMu sync.Mutex

// keySalt makes the keys of concurrently running check processes distinct
// (it is a function of VERIF_SEED, the job and the shard, so a run stays a
// pure function of its inputs). Without it every process would use the same
// "gca" key, and a server in one process that forwards an authorization to a
// port that happens to belong to a server of another process would be obeyed
// there.
var keySalt = os.Getenv("VERIF_SEED_EFFECTIVE") + "|" + os.Getenv("VERIF_SHARD") + "|" + os.Getenv("VERIF_REPO") + "|" + strings.Join(os.Args[1:3], " ") + "|"

func keyFor(label string) ref.Key {
	keyCacheMu.Lock()
	defer keyCacheMu.Unlock()
	if k, ok := keyCache[label]; ok {
		return k
	}
	k := ref.KeyFromSeed([]byte(keySalt + label))
	keyCache[label] = k
	return k
}

func drawKey(t *rapid.T, prefix string, n int, name string) ref.Key {
	i := rapid.IntRange(0, n-1).Draw(t, name)
	return keyFor(fmt.Sprintf("%s-%d", prefix, i))
}

// maxCapacity is the largest capacity the generators use: beyond it
// capacity*135 does not fit 64 bits (DESIGN.md section 6).
const maxCapacity = math.MaxUint64 / 135

func drawCapacity(t *rapid.T, name string) uint64 {
	switch rapid.IntRange(0, 5).Draw(t, name+"Class") {
	case 0:
		return rapid.Uint64Range(0, 10).Draw(t, name)
	case 1:
		return rapid.Uint64Range(10, 100000).Draw(t, name)
	case 2:
		return maxCapacity - rapid.Uint64Range(0, 3).Draw(t, name)
	case 3:
		return 1 << rapid.UintRange(0, 56).Draw(t, name)
	default:
		return rapid.Uint64Range(0, maxCapacity).Draw(t, name)
	}
}

func limitOf(capacity uint64) uint64 {
	l := ref.CapacityLimit(capacity)
	if !l.IsUint64() {
		return math.MaxUint64
	}
	return l.Uint64()
}

// drawPower draws a power value from the boundary set of C01/C02.
func drawPower(t *rapid.T, capacity uint64, name string) uint64 {
	lim := limitOf(capacity)
	switch rapid.IntRange(0, 11).Draw(t, name+"Class") {
	case 0:
		return rapid.SampledFrom([]uint64{0, 1}).Draw(t, name)
	case 1:
		return rapid.SampledFrom([]uint64{2, 3}).Draw(t, name)
	case 2:
		return lim
	case 3:
		if lim == math.MaxUint64 {
			return lim
		}
		return lim + 1
	case 4:
		if lim < 2 {
			return 2
		}
		return lim - 1
	case 5:
		return math.MaxInt64
	case 6:
		return 1 << 63
	case 7:
		return math.MaxUint64 - rapid.Uint64Range(0, 2).Draw(t, name)
	case 8:
		return math.MaxInt64 - rapid.Uint64Range(0, 2).Draw(t, name)
	case 9:
		return rapid.Uint64().Draw(t, name)
	default:
		if lim < 3 {
			return rapid.Uint64Range(2, 50).Draw(t, name)
		}
		return rapid.Uint64Range(2, lim).Draw(t, name)
	}
}

func clampU32(v int64) uint32 {
	if v < 0 {
		return 0
	}
	if v > math.MaxUint32 {
		return math.MaxUint32
	}
	return uint32(v)
}

// drawSlot draws a timeslot from the boundary set around now and the window.
func drawSlot(t *rapid.T, now, offset uint32, name string) uint32 {
	n, o := int64(now), int64(offset)
	c := []int64{n - 433, n - 432, n - 431, n - 1, n, n + 1, n + 431, n + 432, n + 433, o - 1, o, o + 1, o + 2015, o + 2016, o + 2017, o + 4031, o + 4032, o + 4033}
	// window-relative boundaries that are within reach of the clock get extra weight
	var reach []int64
	for _, b := range []int64{o, o + 1, o + 2015, o + 2016, o + 2017, o + 4030, o + 4031} {
		if b >= n-432 && b <= n+432 {
			reach = append(reach, b)
		}
	}
	if len(reach) > 0 && rapid.IntRange(0, 2).Draw(t, name+"Reach") == 0 {
		return clampU32(reach[rapid.IntRange(0, len(reach)-1).Draw(t, name+"ReachPick")])
	}
	switch rapid.IntRange(0, 3).Draw(t, name+"Class") {
	case 0:
		return clampU32(c[rapid.IntRange(0, len(c)-1).Draw(t, name)])
	case 1:
		return clampU32(n + rapid.Int64Range(-440, 440).Draw(t, name))
	case 2:
		return clampU32(o + rapid.Int64Range(-5, 4040).Draw(t, name))
	default:
		return clampU32(n + rapid.Int64Range(-20, 20).Draw(t, name))
	}
}

// drawNow draws a clock value relative to the window offset.
func drawNow(t *rapid.T, offset uint32, name string) uint32 {
	o := int64(offset)
	c := []int64{o, o + 431, o + 432, o + 433, o + 3199, o + 3200, o + 3599, o + 3600, o + 3601, o + 4031, o + 4032, o + 4033, o + 4464, o - 1, o - 432, o - 433}
	switch rapid.IntRange(0, 2).Draw(t, name+"Class") {
	case 0:
		return clampU32(c[rapid.IntRange(0, len(c)-1).Draw(t, name)])
	case 1:
		return clampU32(o + rapid.Int64Range(-500, 4500).Draw(t, name))
	default:
		return clampU32(o + rapid.Int64Range(0, 3000).Draw(t, name))
	}
}

// finiteFloat draws any finite float64 from raw bits.
func finiteFloat(t *rapid.T, name string) float64 {
	switch rapid.IntRange(0, 4).Draw(t, name+"Class") {
	case 0:
		return rapid.SampledFrom([]float64{0, math.Copysign(0, -1), 1, -1, 90, -90, 180, -180, math.SmallestNonzeroFloat64, -math.SmallestNonzeroFloat64, math.MaxFloat64, -math.MaxFloat64, 1e-310, 45.123}).Draw(t, name)
	case 1:
		return rapid.Float64Range(-180, 180).Draw(t, name)
	default:
		for {
			b := rapid.Uint64().Draw(t, name)
			f := math.Float64frombits(b)
			if !math.IsNaN(f) && !math.IsInf(f, 0) {
				return f
			}
		}
	}
}

func bigStr(v uint64) string { return new(big.Int).SetUint64(v).String() }

// clientLockFree reports whether the client's mutex can be taken. A mutex that
// was leaked stays held for ever; one that another goroutine holds for a few
// microseconds (a sync round picking its server, a handler about to return)
// must not be mistaken for it, so the probe is repeated for up to half a
// second of active time before it answers no.
func clientLockFree(c *client.Client) bool {
	return world.WaitActive(500*time.Millisecond, time.Millisecond, c.VerifTryLock)
}

// serverLocksFree is the same probe for the server's two mutexes.
func serverLocksFree(S *server.GCAServer) (a, b bool) {
	world.WaitActive(500*time.Millisecond, time.Millisecond, func() bool {
		a, b = S.VerifTryLocks()
		return a && b
	})
	return a, b
}

// fixtureMaxAge is how long a test that keeps ONE server or client for many
// cases may use it before taking a fresh one: an instance of the test build
// ends the process when it is 120 s old (VERIF_FIXTURE_MAX_AGE_MS shortens it
// to exercise the renewal path).
var fixtureMaxAge = func() time.Duration {
	if v := os.Getenv("VERIF_FIXTURE_MAX_AGE_MS"); v != "" {
		var ms int
		fmt.Sscanf(v, "%d", &ms)
		if ms > 0 {
			return time.Duration(ms) * time.Millisecond
		}
	}
	return 50 * time.Second
}()
