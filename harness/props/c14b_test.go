//go:build test && verif

package props

import (
	"fmt"
	"os"
	"path/filepath"
	"testing"
	"time"

	"github.com/glowlabs-org/gca-backend/glow"
	"github.com/glowlabs-org/gca-backend/server"
	"pgregory.net/rapid"

	"verif/harness/ev"
	"verif/harness/ref"
	"verif/harness/world"
)

// TestC14LongHistory: servers whose public files have grown past a megabyte.
// The small worlds of the gap matrix never leave the first few kilobytes of
// any file; whatever the archive code does with size (buffers, chunks, limits)
// is only visible on a long history.
func TestC14LongHistory(t *testing.T) {
	ev.Rule("C14(4): long histories: (a) 17-40 devices and 2-4 rotations by the server's own loop (statistics file 1.1-5 MB), (b) 20-24 devices reporting 600-700 slots each (report log just above 1 MiB); the authorization and report files are prepared in the data directory before the server starts (loaded as after a restart), the rotations are performed by the running server; an archive is requested while a burst (new device + first report, or a further rotation) lands in a drawn gap; oracle as C14(1) (record-aligned prefixes, dependency closure, signatures, no private key); non-trivial = some public file in the archive exceeds 1 MiB; distinct by (mode, sizes, gap)")
	server.VerifSetStepping(true)
	rapid.Check(t, func(t *rapid.T) {
		// (a mode with 7100-7400 authorized devices - authorization file beyond 1 MiB - was
		// removed: such a server allocates 2.3 GB of report tables, and several shards of
		// them at once made an archive request exceed its 20 s budget in the thorough tier)
		mode := rapid.SampledFrom([]string{"weeks", "weeks", "reports"}).Draw(t, "mode")
		temp, gca := keyFor("temp"), keyFor("gca")
		glow.SetCurrentTimeslot(100)
		dir := world.NewServerDir(temp.Pub)
		// The long files are written into the data directory before the server
		// starts (it loads them as after any restart): thousands of requests per
		// case would take the server past the 120 s life span of test builds when
		// the machine is busy.
		var keys []ref.Key
		var authFile, reportFile []byte
		authorize := func(n int) {
			for i := 0; i < n; i++ {
				k := keyFor(fmt.Sprintf("c14-long-%d", i))
				a := ref.Auth{ShortID: uint32(5000 + i), PublicKey: k.Pub, Capacity: 1 << 30}
				a.Sig = ref.Sign(gca, a.SigningBytes())
				authFile = append(authFile, a.Encode()...)
				keys = append(keys, k)
			}
		}
		desc := mode
		weeks := 0
		switch mode {
		case "weeks":
			nDev := rapid.IntRange(17, 40).Draw(t, "devices")
			weeks = rapid.IntRange(2, 4).Draw(t, "weeks")
			if nDev*weeks > 80 {
				weeks = 2
			}
			authorize(nDev)
			desc = fmt.Sprintf("weeks devices=%d rotations=%d", nDev, weeks)
		case "authorizations":
			n := rapid.IntRange(7100, 7400).Draw(t, "devices")
			authorize(n)
			desc = fmt.Sprintf("authorizations devices=%d", n)
		case "reports":
			nDev := rapid.IntRange(20, 24).Draw(t, "devices")
			per := rapid.IntRange(600, 700).Draw(t, "slotsPerDevice")
			authorize(nDev)
			for i, k := range keys {
				for s := 0; s < per; s++ {
					reportFile = append(reportFile, ref.SignedReport(k, uint32(5000+i), uint32(s), uint64(10+s)).Encode()...)
				}
			}
			desc = fmt.Sprintf("reports devices=%d slots=%d", nDev, per)
		}
		for name, b := range map[string][]byte{"gcaPubKey.dat": gca.Pub[:], "equipment-authorizations.dat": authFile, "equipment-reports.dat": reportFile} {
			if err := os.WriteFile(filepath.Join(dir, name), b, 0644); err != nil {
				t.Fatal(err)
			}
		}
		born := time.Now()
		S, err := world.StartServer(dir)
		if err != nil {
			t.Fatalf("C14: %s: the server does not start on the prepared directory: %v", desc, err)
		}
		st := &c14State{gca: gca, temp: temp}
		defer func() {
			server.VerifClearCallbacks()
			glow.SetCurrentTimeslot(S.VerifSnapshot().Offset)
			if a, b := S.S.VerifTryLocks(); a && b {
				S.Close()
			} else {
				S.Abandon()
			}
			world.StopAllLeaked()
			os.RemoveAll(dir)
		}()
		if snap := S.VerifSnapshot(); !snap.GCAAvailable || len(snap.Equipment) != len(keys) {
			t.Fatalf("C14: %s: harness: the prepared directory was loaded as registered=%v with %d devices", desc, snap.GCAAvailable, len(snap.Equipment))
		}
		for w := 0; w < weeks; w++ {
			now := glow.CurrentTimeslot()
			for i, k := range keys {
				if i%5 == 0 {
					S.SendUDP(ref.SignedReport(k, uint32(5000+i), now, uint64(70+w)).Encode())
				}
			}
			if err := c14Bursts()[2].run(S, st); err != nil {
				t.Fatalf("C14: %v", err)
			}
			glow.SetCurrentTimeslot(S.VerifSnapshot().Offset + 100)
		}
		if time.Since(born) > 70*time.Second {
			// test builds stop a server that has lived for 120 s; not a case to judge
			ev.Label("c14:long-history-setup-too-slow-unjudged")
			return
		}
		point := rapid.SampledFrom(c14Points).Draw(t, "gap")
		bi := rapid.SampledFrom([]int{0, 2}).Draw(t, "burst")
		if mode == "authorizations" {
			bi = 0 // a rotation over 7000 devices writes 230 MB
		}
		burst := c14Bursts()[bi]
		desc += " | gap " + filepath.Base(point) + " | burst " + burst.name
		lastCase(desc)
		fired := false
		var burstErr error
		server.VerifOn(point, func(g *server.GCAServer, name string) {
			if !fired {
				fired = true
				server.VerifOn(point, nil)
				burstErr = burst.run(S, st)
			}
		})
		code, body, err := getArchive(S)
		server.VerifOn(point, nil)
		if ps := server.VerifPanics(); len(ps) > 0 {
			t.Fatalf("C14: %s: panic: %s: %s", desc, ps[0].Where, ps[0].Value)
		}
		if err != nil {
			t.Fatalf("C14: %s: archive request failed: %v", desc, err)
		}
		if burstErr != nil {
			t.Fatalf("C14: %s: %v", desc, burstErr)
		}
		ev.Eval(1)
		if code != 200 {
			t.Fatalf("C14: %s: the first archive request of a fresh server was answered with %d", desc, code)
		}
		a, err := parseArchive(body)
		if err != nil {
			t.Fatalf("C14: %s: the archive is not a valid zip: %v", desc, err)
		}
		snap := S.VerifSnapshot()
		if why := checkArchive(a, dir, [32]byte(snap.ServerPriv), [32]byte(snap.ServerPub), true); why != "" {
			t.Fatalf("C14: %s: %s", desc, why)
		}
		big := ""
		for name, data := range a.files {
			if len(data) > 1<<20 {
				big = fmt.Sprintf("%s=%d", name, len(data))
			}
		}
		if big != "" {
			ev.NonTrivial("c14|long|" + desc)
			ev.Label("c14:long-history-file-over-1MiB")
			ev.Sample("c14:long-history", map[string]interface{}{"case": desc, "largest": big, "archive_bytes": len(body)})
		}
	})
}
