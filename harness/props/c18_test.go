package props

// C18 - event log stays within its bound, keeps the newest events, never panics.
//
// Stateful check of glow.EventLogger against a reference model. The model is
// written from the property statement: lines are cut to the per-line limit,
// a line costs 2*len bytes, a line that can never fit is dropped, a repeated
// line only gets a new timestamp, a fresh line evicts the least recently
// updated lines - only as many as needed - and expiry removes old timestamps
// and, with the last timestamp, the line and its cost.

import (
	"fmt"
	"sort"
	"strings"
	"testing"
	"time"

	"github.com/glowlabs-org/gca-backend/glow"
	"pgregory.net/rapid"

	"verif/harness/ev"
)

type elEntry struct {
	line    string
	updates []time.Time
}

type elModel struct {
	expiry  time.Duration
	max     int
	maxLine int
	entries map[string]*elEntry
}

func (m *elModel) used() int {
	n := 0
	for k := range m.entries {
		n += 2 * len(k)
	}
	return n
}

// order returns the lines by last update, ascending; ties keep no promise.
func (m *elModel) order() []*elEntry {
	var es []*elEntry
	for _, e := range m.entries {
		es = append(es, e)
	}
	sort.SliceStable(es, func(i, j int) bool {
		return es[i].updates[len(es[i].updates)-1].Before(es[j].updates[len(es[j].updates)-1])
	})
	return es
}

func (m *elModel) expire(now time.Time) (removed int) {
	cut := now.Add(-m.expiry)
	for k, e := range m.entries {
		i := 0
		for i < len(e.updates) && e.updates[i].Before(cut) {
			i++
		}
		e.updates = e.updates[i:]
		if len(e.updates) == 0 {
			delete(m.entries, k)
			removed++
		}
	}
	return removed
}

// printf applies the rules and returns (key, stored, evictedLines, tieAmbiguous).
func (m *elModel) printf(line string) (key string, stored bool, evicted []string, fresh bool, ambiguous bool) {
	key = line
	if len(key) > m.maxLine {
		key = key[:m.maxLine]
	}
	need := 2 * len(key)
	if need > m.max {
		return key, false, nil, false, false
	}
	if _, ok := m.entries[key]; ok {
		return key, true, nil, false, false
	}
	ord := m.order()
	used := m.used()
	for need+used > m.max {
		if len(ord) == 0 {
			panic("model: nothing left to evict")
		}
		victim := ord[0]
		if len(ord) > 1 && !victim.updates[len(victim.updates)-1].Before(ord[1].updates[len(ord[1].updates)-1]) {
			ambiguous = true // equal timestamps: either may go first
		}
		ord = ord[1:]
		used -= 2 * len(victim.line)
		evicted = append(evicted, victim.line)
		delete(m.entries, victim.line)
	}
	return key, true, evicted, true, ambiguous
}

type elStep struct {
	Op   string
	Line string
	Cut  string
}

func mkLine(id int, n int, unit string) string {
	// The first character identifies the line, so that lines of the same id
	// collide once they are cut to a short limit. The rest repeats a unit that
	// may be a multi-byte character (or an invalid byte), cut to n BYTES - the
	// limits of the event log are byte limits.
	s := fmt.Sprintf("%c", 'a'+id)
	if n == 0 {
		return ""
	}
	if n <= len(s) {
		return s[:n]
	}
	if unit == "" {
		unit = fmt.Sprintf("%d", id%10)
	}
	return (s + strings.Repeat(unit, (n-len(s))/len(unit)+1))[:n]
}

func TestC18EventLog(t *testing.T) {
	ev.Rule("C18: rapid state machine over glow.EventLogger (Printf of fresh/repeated lines of length 0..2x the line limit, ExpireLogs with cut times before/between/after the stored timestamps, DumpLogEntries) for (expiry,max bytes,max line) in a grid incl. max smaller than one line; oracle = reference model compared after every step through DumpLogEntries; non-trivial = history in which an expiry removed >=1 line and a later Printf of a fresh line needed room or eviction; distinct by (configuration, operation sequence)")
	rapid.Check(t, func(t *rapid.T) {
		expiry := rapid.SampledFrom([]time.Duration{time.Hour, 24 * time.Hour}).Draw(t, "expiry")
		max := rapid.SampledFrom([]int{0, 10, 100, 1000}).Draw(t, "max")
		maxLine := rapid.SampledFrom([]int{1, 5, 50, 200}).Draw(t, "maxLine")
		l := glow.NewEventLogger(expiry, max, maxLine)
		m := &elModel{expiry: expiry, max: max, maxLine: maxLine, entries: map[string]*elEntry{}}
		var hist []elStep
		expiredSomething := false
		nontrivial := false
		ambiguousEver := false
		ev.Eval(1)

		guard := func(what string, f func()) {
			defer func() {
				if r := recover(); r != nil {
					lastCase(map[string]interface{}{"expiry": expiry.String(), "max": max, "maxLine": maxLine, "history": hist})
					t.Fatalf("C18: %s panicked: %v (config expiry=%v max=%d maxLine=%d, history=%+v)", what, r, expiry, max, maxLine, hist)
				}
			}()
			f()
		}

		// sync compares the logger with the model and learns the timestamps.
		sync := func(hasKey bool, afterKey string, afterFresh bool) {
			var dm map[string][]time.Time
			var ds []string
			guard("DumpLogEntries", func() { dm, ds = l.DumpLogEntries() })
			if len(dm) != len(ds) {
				t.Fatalf("C18: dump map has %d lines, dump order has %d", len(dm), len(ds))
			}
			total := 0
			for k := range dm {
				total += 2 * len(k)
				if len(k) > maxLine {
					t.Fatalf("C18: stored line of %d bytes exceeds the line limit %d", len(k), maxLine)
				}
			}
			if total > max {
				t.Fatalf("C18: stored lines cost %d bytes, limit %d", total, max)
			}
			// learn the timestamp of the update that was just made
			if hasKey {
				ts, ok := dm[afterKey]
				if !ok {
					t.Fatalf("C18: line %q was logged (loggable: cost %d <= %d) but is not retained; history=%+v", afterKey, 2*len(afterKey), max, hist)
				}
				e := m.entries[afterKey]
				if afterFresh || e == nil {
					e = &elEntry{line: afterKey}
					m.entries[afterKey] = e
				}
				if len(ts) != len(e.updates)+1 {
					t.Fatalf("C18: line %q has %d timestamps, model expects %d; history=%+v", afterKey, len(ts), len(e.updates)+1, hist)
				}
				e.updates = append(e.updates, ts[len(ts)-1])
			}
			if ambiguousEver {
				// an eviction between equal timestamps happened: resynchronise the
				// model's line set with what the logger chose (both are allowed)
				return
			}
			if len(dm) != len(m.entries) {
				t.Fatalf("C18: logger holds %d lines %v, model %d %v; history=%+v", len(dm), keysOf(dm), len(m.entries), modelKeys(m), hist)
			}
			for k, e := range m.entries {
				ts, ok := dm[k]
				if !ok {
					t.Fatalf("C18: model line %q missing from logger (logger has %v); history=%+v", k, keysOf(dm), hist)
				}
				if len(ts) != len(e.updates) {
					t.Fatalf("C18: line %q: %d timestamps, model %d; history=%+v", k, len(ts), len(e.updates), hist)
				}
				for i := range ts {
					if !ts[i].Equal(e.updates[i]) {
						t.Fatalf("C18: line %q timestamp %d differs", k, i)
					}
				}
			}
			// dump order: ascending by last update, and a permutation of the keys
			seen := map[string]bool{}
			for i, k := range ds {
				if seen[k] {
					t.Fatalf("C18: dump order lists %q twice", k)
				}
				seen[k] = true
				if _, ok := dm[k]; !ok {
					t.Fatalf("C18: dump order lists unknown line %q", k)
				}
				if i > 0 {
					a, b := dm[ds[i-1]], dm[k]
					if b[len(b)-1].Before(a[len(a)-1]) {
						t.Fatalf("C18: dump order not ascending by last update at %d", i)
					}
				}
			}
		}

		nLines := rapid.IntRange(2, 8).Draw(t, "nLines")
		manyDone := false // at most one burst of hundreds of repeats per case (every step is followed by a full comparison)
		// filler of the lines: ASCII digits, 2-, 3- and 4-byte characters, a lone continuation byte
		unit := rapid.SampledFrom([]string{"", "", "\u00e9", "\u20ac", "\U0001F600", "\x80", "a\u20ac"}).Draw(t, "unit")
		if unit != "" {
			ev.Label("c18:multibyte-lines")
		}
		steps := map[string]func(*rapid.T){
			"printf": func(t *rapid.T) {
				id := rapid.IntRange(0, nLines-1).Draw(t, "id")
				var n int
				switch rapid.IntRange(0, 5).Draw(t, "lenClass") {
				case 0:
					n = rapid.IntRange(0, 2).Draw(t, "len")
				case 1:
					n = rapid.SampledFrom([]int{maxLine - 1, maxLine, maxLine + 1, 2 * maxLine, max / 2, max/2 + 1}).Draw(t, "len")
					if n < 0 {
						n = 0
					}
				default:
					n = rapid.IntRange(0, 2*maxLine).Draw(t, "len")
				}
				line := mkLine(id, n, unit)
				// now and then the same line is logged hundreds of times in a row (a
				// line that repeats every few seconds for a day): its update history
				// grows long, and the last update must still be the one that counts
				reps := 1
				if !manyDone && rapid.IntRange(0, 39).Draw(t, "manyRepeats") == 0 {
					manyDone = true
					reps = rapid.SampledFrom([]int{255, 256, 257, 300, 513}).Draw(t, "repeats")
					ev.Label("c18:line-repeated-hundreds-of-times")
				}
				asArg := strings.Contains(line, "%") || rapid.Bool().Draw(t, "asArg")
				hist = append(hist, elStep{Op: "printf", Line: fmt.Sprintf("id%d/len%d x%d", id, n, reps)})
				for rep := 1; rep < reps; rep++ {
					key, stored, _, fresh, amb := m.printf(line)
					if amb {
						ambiguousEver = true
					}
					guard("Printf", func() {
						if asArg {
							l.Printf("%s", line)
						} else {
							l.Printf(line)
						}
					})
					if stored {
						sync(true, key, fresh)
					} else {
						sync(false, "", false)
					}
				}
				key, stored, evicted, fresh, amb := m.printf(line)
				if amb {
					ambiguousEver = true
				}
				if fresh && expiredSomething && (len(evicted) > 0 || 2*len(key)+m.used() > max/2) {
					nontrivial = true
				}
				if len(evicted) > 0 {
					ev.Label("c18:printf-evicts")
				}
				guard("Printf", func() {
					if asArg {
						l.Printf("%s", line)
					} else {
						l.Printf(line)
					}
				})
				if stored {
					sync(true, key, fresh)
				} else {
					ev.Label("c18:printf-unstorable")
					sync(false, "", false)
				}
			},
			"expire": func(t *rapid.T) {
				var all []time.Time
				for _, e := range m.entries {
					all = append(all, e.updates...)
				}
				sort.Slice(all, func(i, j int) bool { return all[i].Before(all[j]) })
				var now time.Time
				var desc string
				switch c := rapid.IntRange(0, 3).Draw(t, "cutClass"); {
				case c == 0 || len(all) == 0:
					now = time.Now().Add(-time.Minute)
					desc = "before-all"
				case c == 1:
					i := rapid.IntRange(0, len(all)-1).Draw(t, "cutIdx")
					now = all[i].Add(expiry).Add(time.Nanosecond)
					desc = fmt.Sprintf("just-after-update-%d-of-%d", i, len(all))
				case c == 2:
					i := rapid.IntRange(0, len(all)-1).Draw(t, "cutIdx")
					now = all[i].Add(expiry)
					desc = fmt.Sprintf("exactly-at-update-%d-of-%d", i, len(all))
				default:
					now = time.Now().Add(expiry).Add(time.Hour)
					desc = "after-all"
				}
				hist = append(hist, elStep{Op: "expire", Cut: desc})
				removed := m.expire(now)
				if removed > 0 {
					expiredSomething = true
					ev.Label("c18:expire-removes-line")
				}
				guard("ExpireLogs", func() { l.ExpireLogs(now) })
				sync(false, "", false)
			},
			"dump": func(t *rapid.T) {
				hist = append(hist, elStep{Op: "dump"})
				sync(false, "", false)
			},
		}
		t.Repeat(steps)
		lastCase(map[string]interface{}{"expiry": expiry.String(), "max": max, "maxLine": maxLine, "history": hist})
		if nontrivial {
			ev.NonTrivial(fmt.Sprintf("c18|%v|%d|%d|%+v", expiry, max, maxLine, hist))
			ev.Sample("c18:expire-then-fresh-printf", map[string]interface{}{"expiry": expiry.String(), "max": max, "maxLine": maxLine, "history": hist})
			ev.Label("c18:nontrivial-history")
		}
		if ambiguousEver {
			ev.Label("c18:tie-ambiguous-history")
		}
	})
}

func keysOf(m map[string][]time.Time) []string {
	var k []string
	for x := range m {
		k = append(k, x)
	}
	sort.Strings(k)
	return k
}

func modelKeys(m *elModel) []string {
	var k []string
	for x := range m.entries {
		k = append(k, x)
	}
	sort.Strings(k)
	return k
}
