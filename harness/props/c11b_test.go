//go:build test && verif

package props

import (
	"fmt"
	"os"
	"sync"
	"testing"
	"time"

	"github.com/glowlabs-org/gca-backend/client"
	"github.com/glowlabs-org/gca-backend/glow"
	"pgregory.net/rapid"

	"verif/harness/ev"
	"verif/harness/ref"
	"verif/harness/world"
)

// TestC11OverlappingRounds - the client's loop starts a new sync round while an
// earlier one is still waiting for a slow server (it does so whenever the last
// finished round failed). What one round learns about a ban must bind the
// other: after the ban is known, no round may contact the banned server.
func TestC11OverlappingRounds(t *testing.T) {
	ev.Rule("C11(overlap): 3-5 fake servers that hold every connection until the harness decides; round A is started and parks on some server, round B is started and parks too; B's connection is answered with a valid reply that carries a GCA-signed ban of a drawn server X (one that holds no parked connection); once B has returned and the client's state shows X as banned, A's connection is failed (close / reset / garbage) and every later connection is failed as well, so that A walks through all the candidates it has left. Oracle: X is never contacted after the ban became known, X is not the selected server afterwards, the ban is in the map file, no panic, mutex free. Non-trivial = every case (X is always eligible before the ban); distinct by (servers, X, failure kind)")
	rapid.Check(t, func(t *rapid.T) {
		client.VerifSetStepping(true)
		ev.Eval(1)
		dev, gca := keyFor("c11b-dev"), keyFor("gca")
		sink := world.NewUDPSink()
		defer sink.Close()
		n := rapid.IntRange(3, 5).Draw(t, "servers")
		type held struct {
			f       *world.FakeServer
			release chan world.Action
		}
		var mu sync.Mutex
		var parked []*held // connections waiting for a decision, in arrival order
		failAll := false
		failKind := rapid.SampledFrom([]string{"close", "reset", "garbage"}).Draw(t, "failKind")
		failAction := func() world.Action {
			switch failKind {
			case "reset":
				return world.Action{Kind: "reset"}
			case "garbage":
				return world.Action{Kind: "raw", Raw: world.Frame([]byte("not a reply"))}
			}
			return world.Action{Kind: "close"}
		}
		var fakes []*world.FakeServer
		servers := map[[32]byte]ref.ClientServer{}
		for i := 0; i < n; i++ {
			f := world.NewFakeServer(keyFor(fmt.Sprintf("c11b-srv-%d", i)))
			fakes = append(fakes, f)
			servers[f.Key.Pub] = f.ClientEntry(false, sink.Port)
			f.SetBehaviour(func(attempt int, req []byte) world.Action {
				if req == nil {
					return world.Action{Kind: "raw"} // read the request first
				}
				mu.Lock()
				if failAll {
					mu.Unlock()
					return failAction()
				}
				h := &held{f: f, release: make(chan world.Action, 1)}
				parked = append(parked, h)
				mu.Unlock()
				return <-h.release
			})
		}
		defer func() {
			mu.Lock()
			failAll = true
			for _, h := range parked {
				select {
				case h.release <- world.Action{Kind: "close"}:
				default:
				}
			}
			mu.Unlock()
			for _, f := range fakes {
				f.Close()
			}
		}()
		dir := world.NewClientDir(world.ClientCfg{Key: dev, GCA: gca.Pub, ShortID: 5, Servers: servers, Energy: "timestamp,energy (mWh)\n"})
		defer os.RemoveAll(dir)
		c, err := world.StartClient(dir)
		if err != nil {
			t.Fatalf("C11: NewClient: %v", err)
		}
		defer world.StopAllLeakedClients()
		defer func() { world.CloseClient(c) }()
		var hist []string
		fail := func(format string, a ...interface{}) {
			t.Fatalf("C11: "+fmt.Sprintf(format, a...)+"; history %v", hist)
		}
		nParked := func() int { mu.Lock(); defer mu.Unlock(); return len(parked) }
		resA, resB := make(chan bool, 1), make(chan bool, 1)
		go func() { resA <- c.VerifSyncOnce(0) }()
		if !world.WaitActive(20*time.Second, time.Millisecond, func() bool { return nParked() >= 1 }) {
			fail("round A did not contact any server")
		}
		go func() { resB <- c.VerifSyncOnce(0) }()
		if !world.WaitActive(20*time.Second, time.Millisecond, func() bool { return nParked() >= 2 }) {
			fail("round B did not contact any server")
		}
		mu.Lock()
		hA, hB := parked[0], parked[1]
		mu.Unlock()
		hist = append(hist, fmt.Sprintf("A parks on %x, B parks on %x", hA.f.Key.Pub[:3], hB.f.Key.Pub[:3]))
		// X: a server without a parked connection
		var cands []*world.FakeServer
		for _, f := range fakes {
			if f != hA.f && f != hB.f {
				cands = append(cands, f)
			}
		}
		X := cands[rapid.IntRange(0, len(cands)-1).Draw(t, "banned")]
		ban := ref.AuthServer{PublicKey: X.Key.Pub, Banned: true, Location: "127.0.0.1", HttpPort: 1, TcpPort: X.Port, UdpPort: sink.Port}
		ban.Sig = ref.Sign(gca, ban.SigningBytes())
		reply := ref.SyncReply{DeviceKey: dev.Pub, Servers: []ref.AuthServer{ban}}
		for i := range reply.Bitfield {
			reply.Bitfield[i] = 0xff
		}
		reply = world.SignReply(reply, hB.f.Key)
		hist = append(hist, fmt.Sprintf("B is answered by %x with a GCA-signed ban of %x", hB.f.Key.Pub[:3], X.Key.Pub[:3]))
		hB.release <- world.Action{Kind: "raw", Raw: world.Frame(reply.Encode())}
		var okB bool
		if !world.WaitActive(20*time.Second, time.Millisecond, func() bool {
			select {
			case okB = <-resB:
				return true
			default:
				return false
			}
		}) {
			fail("round B did not return after its server answered")
		}
		if !okB {
			fail("round B failed although its server answered with a valid reply")
		}
		if !c.VerifState().Servers[glow.PublicKey(X.Key.Pub)].Banned {
			fail("round B completed but the client does not know %x as banned", X.Key.Pub[:3])
		}
		dialsBefore := X.Dials()
		// from now on everything fails, starting with A's parked connection
		mu.Lock()
		failAll = true
		mu.Unlock()
		hist = append(hist, "A's server fails ("+failKind+"), so do all servers from now on")
		hA.release <- failAction()
		if !world.WaitActive(30*time.Second, time.Millisecond, func() bool {
			select {
			case <-resA:
				return true
			default:
				return false
			}
		}) {
			fail("round A did not return within 30 s of active time after its server failed")
		}
		if d := X.Dials(); d != dialsBefore {
			fail("server %x was contacted %d time(s) after the client had learnt that it is banned (accept log %v)", X.Key.Pub[:3], d-dialsBefore, X.AcceptLog())
		}
		st := c.VerifState()
		if [32]byte(st.Primary) == X.Key.Pub {
			fail("the selected server is %x, which the client knows to be banned", X.Key.Pub[:3])
		}
		if !st.Servers[glow.PublicKey(X.Key.Pub)].Banned {
			fail("the ban of %x was lost", X.Key.Pub[:3])
		}
		if !clientLockFree(c) {
			fail("client mutex held after both rounds returned")
		}
		if ps := client.VerifPanics(); len(ps) > 0 {
			fail("client goroutine panicked: %s: %s", ps[0].Where, ps[0].Value)
		}
		ev.NonTrivial(fmt.Sprintf("c11b|%d|%x|%x|%x|%s", n, hA.f.Key.Pub[:2], hB.f.Key.Pub[:2], X.Key.Pub[:2], failKind))
		ev.Label("c11:overlapping-rounds")
		if hA.f == hB.f {
			ev.Label("c11:overlap-same-server")
		}
		ev.Sample("c11:overlap", map[string]interface{}{"servers": n, "same_server": hA.f == hB.f, "fail_kind": failKind})
	})
}
