//go:build test && verif

package props

// C17 - server lists and GCA migration follow the GCA's signatures; bans are
// monotone. Server side: sequences of POST /authorized-servers against a
// reference merge model, with peers that are down and with a second live
// server that must receive the forwarded entry and the equipment list. Client
// side: sequences of sync replies (server lists and migration orders, valid
// and forged) against a reference merge/adoption model; what is on disk must
// be exactly what was adopted and a restart must resume with it.

import (
	"bytes"
	"encoding/binary"
	"encoding/json"
	"fmt"
	"os"
	"path/filepath"
	"sort"
	"strings"
	"testing"
	"time"

	"github.com/glowlabs-org/gca-backend/client"
	"github.com/glowlabs-org/gca-backend/glow"
	"github.com/glowlabs-org/gca-backend/server"
	"pgregory.net/rapid"

	"verif/harness/ev"
	"verif/harness/ref"
	"verif/harness/world"
)

// ---- server side -----------------------------------------------------------

func getAuthorizedServers(s *sess) []ref.AuthServer {
	st, body, err := s.S.Get("/api/v1/authorized-servers")
	if err != nil || st != 200 {
		s.fail("GET authorized-servers failed: %v %d", err, st)
	}
	var r server.AuthorizedServersResponse
	if err := json.Unmarshal(body, &r); err != nil {
		s.fail("authorized-servers reply does not parse: %v", err)
	}
	var out []ref.AuthServer
	for _, a := range r.AuthorizedServers {
		out = append(out, world.FromGlowServer(a))
	}
	return out
}

func TestC17ServerList(t *testing.T) {
	ev.Rule("C17(server): rapid state machine of POST /authorized-servers: new entries (peers that are down, the server itself, a second live server registered with the same GCA), duplicates with changed ports/location, bans, un-ban attempts, forged and foreign signatures (temp key, server key, another GCA, a device key), interleaved with equipment authorizations; oracle: reference merge model (an entry appears only with a valid GCA signature; a non-banned entry changes only by becoming banned; banned never reverts) compared with GET /authorized-servers after every step; the second live server must list the forwarded entry and hold the first server's equipment; non-trivial = sequence with a ban or un-ban attempt on an existing entry; distinct by history")
	rapid.Check(t, func(t *rapid.T) {
		server.VerifSetStepping(true)
		temp, gca := keyFor("temp"), keyFor("gca")
		a := newSess(t, "C17", temp, 0)
		defer a.cleanup()
		a.start()
		a.register(gca, temp, true)
		// a second live server with the same GCA
		var b *sess
		withB := rapid.Bool().Draw(t, "secondServer")
		if withB {
			b = newSess(t, "C17(peer)", keyFor("temp-b"), 0)
			defer func() {
				if b.S != nil && !b.closed {
					b.S.Close()
				}
				os.RemoveAll(b.dir)
			}()
			b.start()
			b.register(gca, keyFor("temp-b"), true)
		}
		var model []ref.AuthServer
		var hist []string
		nontrivial := false
		bSeen := false
		devN := 0
		snapA := a.S.VerifSnapshot()
		signers := map[string]ref.Key{"gca": gca, "temp": temp, "server": {Pub: [32]byte(snapA.ServerPub), Priv: [32]byte(snapA.ServerPriv)}, "other-gca": keyFor("other-gca"), "device": keyFor("dev-x")}
		check := func() {
			got := getAuthorizedServers(a)
			if len(got) != len(model) {
				a.fail("GET authorized-servers lists %d entries, model %d; history %v", len(got), len(model), hist)
			}
			for i := range got {
				if !bytes.Equal(got[i].Encode(), model[i].Encode()) {
					a.fail("authorized-servers entry %d differs from the model (banned %v/%v, location %q/%q, ports %d/%d); history %v", i, got[i].Banned, model[i].Banned, got[i].Location, model[i].Location, got[i].HttpPort, model[i].HttpPort, hist)
				}
				if !ref.Verify(gca.Pub, got[i].SigningBytes(), got[i].Sig) {
					a.fail("authorized-servers lists an entry without a valid GCA signature; history %v", hist)
				}
			}
			// what a device is told over the sync port is the same list, at every
			// point of the history (bans included), not the list of some earlier moment
			if devN > 0 {
				raw, refused, err := a.S.SyncDevice(1)
				if err != nil || refused {
					a.fail("sync for device 1 failed: %v refused=%v; history %v", err, refused, hist)
				}
				r, err := ref.DecodeSyncReply(raw)
				if err != nil {
					a.fail("sync reply does not decode: %v; history %v", err, hist)
				}
				if len(r.Servers) != len(model) {
					a.fail("the sync reply lists %d servers, GET authorized-servers and the model %d; history %v", len(r.Servers), len(model), hist)
				}
				for i := range r.Servers {
					if !bytes.Equal(r.Servers[i].Encode(), model[i].Encode()) {
						a.fail("sync reply entry %d (banned=%v) differs from the server's list (banned=%v); history %v", i, r.Servers[i].Banned, model[i].Banned, hist)
					}
				}
				ev.Label("c17:sync-list-compared")
			}
		}
		post := func(as ref.AuthServer, what string) {
			valid := ref.Verify(gca.Pub, as.SigningBytes(), as.Sig)
			hist = append(hist, fmt.Sprintf("%s key=%x banned=%v loc=%q http=%d valid=%v", what, as.PublicKey[:3], as.Banned, as.Location, as.HttpPort, valid))
			a.logf("POST authorized-servers %s", hist[len(hist)-1])
			st, _, err := a.S.PostJSON("/api/v1/authorized-servers", world.ToGlowServer(as))
			a.checkPanics("POST authorized-servers")
			if err != nil {
				a.fail("request failed: %v; history %v", err, hist)
			}
			if !valid {
				if st == 200 {
					a.fail("server authorization without a valid GCA signature answered 200; history %v", hist)
				}
			} else {
				if st != 200 {
					a.fail("GCA-signed server authorization refused (%d); history %v", st, hist)
				}
				found := -1
				for i := range model {
					if model[i].PublicKey == as.PublicKey {
						found = i
					}
				}
				switch {
				case found < 0:
					model = append(model, as)
				case model[found].Banned:
					nontrivial = true // un-ban attempt or repeated ban
				case as.Banned:
					model[found] = as
					nontrivial = true
				default:
					// update of a live entry: ignored
				}
			}
			check()
			ev.Eval(1)
		}
		mk := func(t *rapid.T, key [32]byte) ref.AuthServer {
			return ref.AuthServer{PublicKey: key, Banned: rapid.IntRange(0, 3).Draw(t, "banned") == 0,
				Location: rapid.SampledFrom([]string{"127.0.0.1", "localhost", "", "no-such-host.invalid", "127.0.0.1"}).Draw(t, "loc"),
				HttpPort: rapid.SampledFrom([]uint16{1, 9, 65535, 0}).Draw(t, "http"), TcpPort: drawU16(t, "tcp"), UdpPort: drawU16(t, "udp")}
		}
		t.Repeat(map[string]func(*rapid.T){
			"new-or-update": func(t *rapid.T) {
				as := mk(t, keyFor(fmt.Sprintf("c17-peer-%d", rapid.IntRange(0, 4).Draw(t, "peer"))).Pub)
				as.Sig = ref.Sign(gca, as.SigningBytes())
				post(as, "post")
			},
			"ban-existing": func(t *rapid.T) {
				if len(model) == 0 {
					t.Skip("no entry")
				}
				cur := model[rapid.IntRange(0, len(model)-1).Draw(t, "which")]
				as := mk(t, cur.PublicKey)
				as.Banned = true
				as.Sig = ref.Sign(gca, as.SigningBytes())
				post(as, "ban")
			},
			"unban-attempt": func(t *rapid.T) {
				if len(model) == 0 {
					t.Skip("no entry")
				}
				cur := model[rapid.IntRange(0, len(model)-1).Draw(t, "which")]
				as := cur
				as.Banned = false
				if rapid.Bool().Draw(t, "changePorts") {
					as.HttpPort++
				}
				as.Sig = ref.Sign(gca, as.SigningBytes())
				post(as, "unban-attempt")
			},
			"forged": func(t *rapid.T) {
				as := mk(t, keyFor(fmt.Sprintf("c17-peer-%d", rapid.IntRange(0, 6).Draw(t, "peer"))).Pub)
				name := rapid.SampledFrom([]string{"temp", "server", "other-gca", "device", "gca-wrong-bytes", "gca-flipped"}).Draw(t, "signer")
				switch name {
				case "gca-wrong-bytes":
					as.Sig = ref.Sign(gca, as.Body())
				case "gca-flipped":
					as.Sig = ref.Sign(gca, as.SigningBytes())
					as.Sig[rapid.IntRange(0, 63).Draw(t, "byte")] ^= 1
				default:
					as.Sig = ref.Sign(signers[name], as.SigningBytes())
				}
				post(as, "forged("+name+")")
			},
			"self": func(t *rapid.T) {
				as := ref.AuthServer{PublicKey: [32]byte(snapA.ServerPub), Location: "127.0.0.1", HttpPort: a.S.HTTP, TcpPort: a.S.TCP, UdpPort: a.S.UDP}
				as.Sig = ref.Sign(gca, as.SigningBytes())
				post(as, "self")
			},
			"live-peer": func(t *rapid.T) {
				if !withB {
					t.Skip("no second server")
				}
				sb := b.S.VerifSnapshot()
				as := ref.AuthServer{PublicKey: [32]byte(sb.ServerPub), Location: "127.0.0.1", HttpPort: b.S.HTTP, TcpPort: b.S.TCP, UdpPort: b.S.UDP}
				as.Sig = ref.Sign(gca, as.SigningBytes())
				already := false
				for _, m := range model {
					if m.PublicKey == as.PublicKey {
						already = true
					}
				}
				post(as, "live-peer")
				if !already {
					bSeen = true
					// the second server must now list the entry and know the equipment
					got := getAuthorizedServers(b)
					found := false
					for _, g := range got {
						if bytes.Equal(g.Encode(), as.Encode()) {
							found = true
						}
					}
					if !found {
						a.fail("the new live server did not receive its own authorization; history %v", hist)
					}
					bs := b.S.VerifSnapshot()
					for id, d := range a.M.Devices {
						g, ok := bs.Equipment[id]
						if !ok || !bytes.Equal(world.FromGlowAuth(g).Encode(), d.Encode()) {
							a.fail("the new live server did not receive the authorization of device %d; history %v", id, hist)
						}
					}
					b.M.Devices, b.M.Live, b.M.AuthLog = map[uint32]ref.Auth{}, map[uint32]*[4032]ref.SlotState{}, nil
					for _, id := range a.M.DeviceIDs() {
						b.M.Authorize(a.M.Devices[id])
					}
				}
			},
			"authorize-device": func(t *rapid.T) {
				devN++
				d := ref.Auth{ShortID: uint32(devN), PublicKey: keyFor(fmt.Sprintf("c17-dev-%d", devN)).Pub, Capacity: 100}
				d.Sig = ref.Sign(gca, d.SigningBytes())
				hist = append(hist, fmt.Sprintf("authorize device %d", devN))
				a.authorize(d, "new")
				check()
			},
		})
		if nontrivial {
			ev.NonTrivial(fmt.Sprintf("c17s|%v", hist))
			ev.Label("c17:server-nontrivial")
			ev.Sample("c17:server-history", map[string]interface{}{"history": hist, "second_live_server": withB})
		}
		if bSeen {
			ev.Label("c17:forwarded-to-live-peer")
		}
		if withB {
			glow.SetCurrentTimeslot(0)
			b.S.Close()
			b.closed = true
		}
		a.close()
	})
}

// ---- client side -----------------------------------------------------------

type c17Client struct {
	t      *rapid.T
	c      *client.Client
	dir    string
	dev    ref.Key
	fakes  []*world.FakeServer
	fakeBy map[[32]byte]*world.FakeServer
	hist   []string
	// reference state
	gca     ref.Key
	shortID uint32
	servers map[[32]byte]ref.ClientServer
}

func (w *c17Client) fail(format string, a ...interface{}) {
	msg := fmt.Sprintf(format, a...)
	lastCase(map[string]interface{}{"failure": msg, "history": w.hist})
	w.t.Fatalf("C17: %s\nhistory:\n  %s", msg, strings.Join(w.hist, "\n  "))
}

func (w *c17Client) compareState(where string) {
	st := w.c.VerifState()
	if [32]byte(st.GCAPubKey) != w.gca.Pub {
		w.fail("%s: client GCA key %x, model %x", where, st.GCAPubKey[:4], w.gca.Pub[:4])
	}
	if st.ShortID != w.shortID {
		w.fail("%s: client short id %d, model %d", where, st.ShortID, w.shortID)
	}
	if len(st.Servers) != len(w.servers) {
		w.fail("%s: client lists %d servers, model %d", where, len(st.Servers), len(w.servers))
	}
	for k, m := range w.servers {
		g, ok := st.Servers[glow.PublicKey(k)]
		if !ok || g.Banned != m.Banned || g.Location != m.Location || g.HttpPort != m.HttpPort || g.TcpPort != m.TcpPort || g.UdpPort != m.UdpPort {
			w.fail("%s: client entry for server %x differs from the model (have %+v, want %+v)", where, k[:3], g, m)
		}
	}
	// disk == memory
	b, _ := os.ReadFile(filepath.Join(w.dir, "gcaPubKey.dat"))
	if !bytes.Equal(b, w.gca.Pub[:]) {
		w.fail("%s: gcaPubKey.dat does not hold the adopted GCA key", where)
	}
	b, _ = os.ReadFile(filepath.Join(w.dir, "shortID.dat"))
	if len(b) != 4 || binary.LittleEndian.Uint32(b) != w.shortID {
		w.fail("%s: shortID.dat does not hold the adopted short id", where)
	}
	b, _ = os.ReadFile(filepath.Join(w.dir, "gcaServers.dat"))
	ks, vs, err := ref.DecodeClientServerMap(b)
	if err != nil || len(ks) != len(w.servers) {
		w.fail("%s: gcaServers.dat holds %d entries (err %v), model %d", where, len(ks), err, len(w.servers))
	}
	for i := range ks {
		if m, ok := w.servers[ks[i]]; !ok || m != vs[i] {
			w.fail("%s: gcaServers.dat entry %x differs from what was adopted", where, ks[i][:3])
		}
	}
}

func toClientServer(a ref.AuthServer) ref.ClientServer {
	return ref.ClientServer{Banned: a.Banned, Location: a.Location, HttpPort: a.HttpPort, TcpPort: a.TcpPort, UdpPort: a.UdpPort}
}

func TestC17ClientAdoption(t *testing.T) {
	ev.Rule("C17(client): a client whose servers are fake endpoints with real keys runs generated sync rounds; replies carry server lists (new entries, un-ban attempts, changed ports, bans, one entry badly signed) or migration orders (outer signature by the current GCA or another key, inner signatures by the new GCA or another key, order for another device, >=1 new server), with client restarts in between; oracle: reference acceptance + merge/adoption model (an entry enters only with the applicable GCA signature, a live entry changes only by becoming banned, banned never reverts, GCA/short id/list change only on a fully valid order for the own key) compared with memory and with the three files after every round, and after every restart; non-trivial = reply carrying a migration (valid or not) or a ban/un-ban of an existing entry; distinct by history")
	rapid.Check(t, func(t *rapid.T) {
		client.VerifSetStepping(true)
		w := &c17Client{t: t, dev: keyFor("c17-dev"), gca: keyFor("gca"), shortID: 11, fakeBy: map[[32]byte]*world.FakeServer{}, servers: map[[32]byte]ref.ClientServer{}}
		for i := 0; i < 4; i++ {
			f := world.NewFakeServer(keyFor(fmt.Sprintf("c17-fs-%d", i)))
			w.fakes = append(w.fakes, f)
			w.fakeBy[f.Key.Pub] = f
		}
		defer func() {
			for _, f := range w.fakes {
				f.Close()
			}
		}()
		for i, n := 0, rapid.IntRange(1, 3).Draw(t, "initialServers"); i < n; i++ {
			w.servers[w.fakes[i].Key.Pub] = w.fakes[i].ClientEntry(false, 9)
		}
		w.dir = world.NewClientDir(world.ClientCfg{Key: w.dev, GCA: w.gca.Pub, ShortID: w.shortID, Servers: w.servers, Energy: "timestamp,energy (mWh)\n"})
		defer os.RemoveAll(w.dir)
		c, err := world.StartClient(w.dir)
		if err != nil {
			t.Fatalf("C17: NewClient: %v", err)
		}
		w.c = c
		defer world.StopAllLeakedClients()
		defer func() {
			if w.c != nil {
				world.CloseClient(w.c)
			}
		}()
		w.compareState("start")
		nontrivial := false
		gcaGen := 0
		var replyMu = make(chan struct{}, 1)
		current := map[*world.FakeServer][]byte{}
		for _, f := range w.fakes {
			f := f
			f.SetBehaviour(func(int, []byte) world.Action {
				replyMu <- struct{}{}
				defer func() { <-replyMu }()
				return world.Action{Kind: "raw", Raw: current[f]}
			})
		}
		entryFor := func(t *rapid.T, signer ref.Key, forceKey *[32]byte) ref.AuthServer {
			var key [32]byte
			if forceKey != nil {
				key = *forceKey
			} else {
				key = w.fakes[rapid.IntRange(0, len(w.fakes)-1).Draw(t, "entryServer")].Key.Pub
			}
			e := ref.AuthServer{PublicKey: key, Banned: rapid.IntRange(0, 3).Draw(t, "entryBanned") == 0, Location: "127.0.0.1", HttpPort: rapid.SampledFrom([]uint16{1, 2}).Draw(t, "entryHttp"), UdpPort: 9}
			if f, ok := w.fakeBy[key]; ok {
				e.TcpPort = f.Port
			}
			if rapid.IntRange(0, 5).Draw(t, "changedPort") == 0 {
				e.TcpPort++
			}
			e.Sig = ref.Sign(signer, e.SigningBytes())
			return e
		}
		round := func(t *rapid.T) {
			kind := rapid.SampledFrom([]string{"list", "list", "list-bad-entry", "migration", "migration-bad-outer", "migration-blank-outer", "migration-bad-inner", "migration-other-device", "migration-whole-reply-for-other-device", "migration-same-gca"}).Draw(t, "replyKind")
			base := ref.SyncReply{DeviceKey: w.dev.Pub}
			for i := range base.Bitfield {
				base.Bitfield[i] = 0xff
			}
			switch kind {
			case "list", "list-bad-entry":
				for i, n := 0, rapid.IntRange(0, 4).Draw(t, "entries"); i < n; i++ {
					base.Servers = append(base.Servers, entryFor(t, w.gca, nil))
				}
				if kind == "list-bad-entry" {
					base.Servers = append(base.Servers, entryFor(t, rapid.SampledFrom([]ref.Key{keyFor("other-gca"), w.dev, w.fakes[0].Key}).Draw(t, "badSigner"), nil))
					if rapid.Bool().Draw(t, "badFirst") {
						base.Servers[0], base.Servers[len(base.Servers)-1] = base.Servers[len(base.Servers)-1], base.Servers[0]
					}
				}
			default:
				gcaGen++
				ng := keyFor(fmt.Sprintf("c17-gca-%d", gcaGen))
				if kind == "migration-same-gca" {
					ng = w.gca
				}
				base.NewGCA = ng.Pub
				base.NewShortID = rapid.Uint32().Draw(t, "newShortID")
				inner := ng
				if kind == "migration-bad-inner" {
					inner = w.gca
				}
				first := w.fakes[rapid.IntRange(0, len(w.fakes)-1).Draw(t, "firstNew")].Key.Pub
				e := entryFor(t, inner, &first)
				e.Banned = false
				e.Sig = ref.Sign(inner, e.SigningBytes())
				base.Servers = append(base.Servers, e)
				for i, n := 0, rapid.IntRange(0, 3).Draw(t, "moreNew"); i < n; i++ {
					base.Servers = append(base.Servers, entryFor(t, inner, nil))
				}
				if kind == "migration-bad-inner" && rapid.Bool().Draw(t, "onlyOneBad") && len(base.Servers) > 1 {
					for i := 1; i < len(base.Servers); i++ {
						base.Servers[i].Sig = ref.Sign(ng, base.Servers[i].SigningBytes())
					}
				}
				eq := w.dev.Pub
				if kind == "migration-other-device" {
					eq = keyFor("another-device").Pub
				}
				m := ref.Migration{Equipment: eq, NewGCA: base.NewGCA, NewShortID: base.NewShortID, NewServers: base.Servers}
				outer := w.gca
				if kind == "migration-bad-outer" {
					outer = rapid.SampledFrom([]ref.Key{ng, w.dev, keyFor("other-gca"), w.fakes[0].Key}).Draw(t, "outerSigner")
				}
				if kind == "migration-whole-reply-for-other-device" {
					// header, order and signatures all consistent - for another device
					other := keyFor("another-device-with-order").Pub
					base.DeviceKey = other
					m.Equipment = other
				}
				base.GCASig = ref.Sign(outer, m.SigningBytes())
				if kind == "migration-blank-outer" { // no order signature at all (all zero), or a constant
					base.GCASig = [64]byte{}
					if rapid.IntRange(0, 3).Draw(t, "blankKind") == 0 {
						for i := range base.GCASig {
							base.GCASig[i] = 0xff
						}
					}
				}
				nontrivial = true
			}
			// every eligible server answers with the same content, signed by itself
			replyMu <- struct{}{}
			for _, f := range w.fakes {
				current[f] = world.Frame(world.SignReply(base, f.Key).Encode())
			}
			<-replyMu
			// reference decision
			anyEligible := false
			for k, sv := range w.servers {
				if !sv.Banned {
					if f, ok := w.fakeBy[k]; ok && sv.TcpPort == f.Port {
						anyEligible = true
					}
				}
			}
			sample := world.SignReply(base, w.fakes[0].Key)
			_, why := ref.AcceptSyncReply(sample.Encode(), w.fakes[0].Key.Pub, w.dev.Pub, w.gca.Pub, time.Now().Unix(), ref.Verify)
			w.hist = append(w.hist, fmt.Sprintf("round(%s, %d entries, acceptable=%v %s, eligible=%v)", kind, len(base.Servers), why == "", why, anyEligible))
			var ok bool
			func() {
				defer func() {
					if r := recover(); r != nil {
						w.fail("sync round panicked: %v", r)
					}
				}()
				ok = w.c.VerifSyncOnce(0)
			}()
			ev.Eval(1)
			if !clientLockFree(w.c) {
				w.fail("client mutex held after the round")
			}
			wantOK := why == "" && anyEligible
			if ok != wantOK {
				w.fail("round result %v, the reference rule says %v (%s)", ok, wantOK, why)
			}
			if wantOK {
				if base.NewGCA != ([32]byte{}) && base.NewGCA != w.gca.Pub {
					// adoption
					ns := map[[32]byte]ref.ClientServer{}
					for _, e := range base.Servers {
						if _, exists := ns[e.PublicKey]; !exists || e.Banned {
							ns[e.PublicKey] = toClientServer(e)
						}
					}
					w.servers = ns
					w.gca = keyFor(fmt.Sprintf("c17-gca-%d", gcaGen))
					w.shortID = base.NewShortID
					ev.Label("c17:migration-adopted")
				} else {
					for _, e := range base.Servers {
						cur, exists := w.servers[e.PublicKey]
						if !exists || e.Banned {
							if exists && (cur.Banned != e.Banned || !e.Banned) {
								nontrivial = true
							}
							w.servers[e.PublicKey] = toClientServer(e)
						} else if exists && cur.Banned && !e.Banned {
							nontrivial = true // un-ban attempt
						}
					}
					ev.Label("c17:list-merged")
				}
			} else {
				ev.Label("c17:reply-rejected-or-unreachable")
			}
			w.compareState("after " + kind)
		}
		t.Repeat(map[string]func(*rapid.T){
			"round":  round,
			"round2": round,
			"restart": func(t *rapid.T) {
				w.hist = append(w.hist, "restart")
				if err := world.CloseClient(w.c); err != nil {
					w.fail("close: %v", err)
				}
				c, err := world.StartClient(w.dir)
				if err != nil {
					w.c = nil
					w.fail("the client does not restart on what it persisted: %v", err)
				}
				w.c = c
				w.compareState("after restart")
				ev.Label("c17:client-restart")
			},
		})
		if nontrivial {
			ev.NonTrivial(fmt.Sprintf("c17c|%v", w.hist))
			ev.Label("c17:client-nontrivial")
			ev.Sample("c17:client-history", map[string]interface{}{"history": w.hist})
		}
		var ks []string
		for k := range w.servers {
			ks = append(ks, fmt.Sprintf("%x", k[:2]))
		}
		sort.Strings(ks)
	})
}
