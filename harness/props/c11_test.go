//go:build test && verif

package props

// C11 - no server behaviour can crash, wedge or mislead the client. The client
// is configured with 1-5 servers: dead ones (dial refused) and fake servers
// that own real key pairs and react to every connection with a drawn outcome,
// including replies of any length that carry a VALID signature by that server
// over arbitrary content (a rogue authorized server).

import (
	"encoding/binary"
	"fmt"
	"os"
	"path/filepath"
	"sort"
	"strings"
	"sync"
	"testing"
	"time"

	"github.com/glowlabs-org/gca-backend/client"
	"github.com/glowlabs-org/gca-backend/glow"
	"pgregory.net/rapid"

	"verif/harness/ev"
	"verif/harness/ref"
	"verif/harness/world"
)

type c11World struct {
	t            *rapid.T
	c            *client.Client
	dir          string
	dev          ref.Key
	gca          ref.Key
	sink         *world.UDPSink
	fakes        []*world.FakeServer
	keys         [][32]byte // all configured server keys (fake and dead)
	fakeOf       map[[32]byte]*world.FakeServer
	queue        map[[32]byte][]string // per server: outcomes for the next connections
	hist         []string
	slot         uint32
	energy       strings.Builder
	emitted      int
	ticks        int
	odd          bool     // a round saw a non-dial failure / all-failed / signed-but-malformed reply
	lastAnswered [32]byte // the server whose reply the last successful round accepted
	// servers that exist and hold a GCA authorization but are NOT in the client's
	// files: the client can only learn of them (as banned or as usable) from replies
	strangers []*world.FakeServer
	told      map[[32]byte]bool // keys named as banned by a GCA-signed entry of a reply the client accepted
}

// allFakes lists every fake server that a round may see a connection on.
func (w *c11World) allFakes() []*world.FakeServer {
	return append(append([]*world.FakeServer{}, w.fakes...), w.strangers...)
}

// addStrangers starts 1-2 servers the client has never heard of.
func (w *c11World) addStrangers(t *rapid.T) {
	n := rapid.IntRange(0, 2).Draw(t, "strangers")
	for i := 0; i < n; i++ {
		f := world.NewFakeServer(keyFor(fmt.Sprintf("c11-stranger-%d", i)))
		f.SetBehaviour(func(attempt int, req []byte) world.Action { return w.nextAction(f) })
		w.strangers = append(w.strangers, f)
		w.fakeOf[f.Key.Pub] = f
		w.hist = append(w.hist, fmt.Sprintf("stranger %d: fake, not in the client's files", i))
	}
}

// strangerEntries draws GCA-signed entries about the strangers: bans (by full
// entry or by key only) when ban is set, announcements of usable servers otherwise.
func (w *c11World) strangerEntries(t *rapid.T, ban bool) []ref.AuthServer {
	var out []ref.AuthServer
	for _, s := range w.strangers {
		if !rapid.Bool().Draw(t, "nameStranger") {
			continue
		}
		e := ref.AuthServer{PublicKey: s.Key.Pub, Banned: ban, Location: "127.0.0.1", TcpPort: s.Port, UdpPort: w.sink.Port}
		if ban && rapid.Bool().Draw(t, "banByKeyOnly") {
			e = ref.AuthServer{PublicKey: s.Key.Pub, Banned: true}
		}
		e.Sig = ref.Sign(w.gca, e.SigningBytes())
		out = append(out, e)
	}
	return out
}

func (w *c11World) fail(format string, a ...interface{}) {
	msg := fmt.Sprintf(format, a...)
	lastCase(map[string]interface{}{"failure": msg, "history": w.hist})
	w.t.Fatalf("C11: %s\nhistory:\n  %s", msg, strings.Join(w.hist, "\n  "))
}

// validReply builds a fully valid reply by server f for the client's device.
func (w *c11World) validReply(f *world.FakeServer, servers []ref.AuthServer) ref.SyncReply {
	r := ref.SyncReply{DeviceKey: w.dev.Pub, Offset: 0, Servers: servers}
	for i := range r.Bitfield {
		r.Bitfield[i] = 0xff
	}
	return world.SignReply(r, f.Key)
}

func signedGarbage(f *world.FakeServer, n int, fill []byte) []byte {
	// n >= 72: arbitrary content, then a fresh timestamp and a valid signature
	body := make([]byte, n)
	copy(body, fill)
	binary.LittleEndian.PutUint64(body[n-72:], uint64(time.Now().Unix()))
	sig := ref.Sign(f.Key, body[:n-64])
	copy(body[n-64:], sig[:])
	return body
}

// action turns a drawn outcome name into what the fake server does.
func (w *c11World) action(f *world.FakeServer, outcome string, t *rapid.T) world.Action {
	switch outcome {
	case "close":
		return world.Action{Kind: "close"}
	case "reset":
		return world.Action{Kind: "reset"}
	case "short-prefix":
		return world.Action{Kind: "raw", Raw: []byte{7}}
	case "short-body":
		return world.Action{Kind: "raw", Raw: append([]byte{200, 0}, make([]byte, 50)...)}
	case "refusal-byte":
		return world.Action{Kind: "raw", Raw: []byte{0}}
	case "stall-then-close":
		return world.Action{Kind: "stall", StallFor: time.Duration(rapid.IntRange(20, 250).Draw(t, "stallMs")) * time.Millisecond}
	case "len-lt-72":
		n := rapid.IntRange(0, 71).Draw(t, "shortLen")
		return world.Action{Kind: "raw", Raw: world.Frame(rapid.SliceOfN(rapid.Byte(), n, n).Draw(t, "shortBody"))}
	case "signed-72-711":
		n := rapid.IntRange(72, 711).Draw(t, "signedLen")
		return world.Action{Kind: "raw", Raw: world.Frame(signedGarbage(f, n, rapid.SliceOfN(rapid.Byte(), 0, 64).Draw(t, "fill")))}
	case "signed-large":
		n := rapid.SampledFrom([]int{712, 713, 1000, 4096, 65535, rapid.IntRange(712, 65535).Draw(t, "largeLen")}).Draw(t, "largePick")
		fill := rapid.SliceOfN(rapid.Byte(), 0, 700).Draw(t, "fill")
		g := signedGarbage(f, n, fill)
		if rapid.Bool().Draw(t, "ownKeyPrefix") {
			copy(g, w.dev.Pub[:]) // passes the device-key binding, the rest is arbitrary
		}
		// keep timestamp+signature consistent after the overwrite
		binary.LittleEndian.PutUint64(g[n-72:], uint64(time.Now().Unix()))
		sig := ref.Sign(f.Key, g[:n-64])
		copy(g[n-64:], sig[:])
		return world.Action{Kind: "raw", Raw: world.Frame(g)}
	case "random-bytes":
		n := rapid.IntRange(0, 3000).Draw(t, "rndLen")
		return world.Action{Kind: "raw", Raw: world.Frame(rapid.SliceOfN(rapid.Byte(), n, n).Draw(t, "rndBody"))}
	case "bad-signature":
		r := w.validReply(f, nil)
		r.Sig = ref.Sign(keyFor("someone-else"), r.Body())
		return world.Action{Kind: "raw", Raw: world.Frame(r.Encode())}
	case "stale-timestamp":
		r := ref.SyncReply{DeviceKey: w.dev.Pub}
		r.Timestamp = uint64(time.Now().Unix() - 24*3600 - 30)
		if rapid.Bool().Draw(t, "future") {
			r.Timestamp = uint64(time.Now().Unix() + 24*3600 + 30)
		}
		r = world.SignReply(r, f.Key)
		return world.Action{Kind: "raw", Raw: world.Frame(r.Encode())}
	case "wrong-device":
		r := ref.SyncReply{DeviceKey: keyFor("another-device").Pub}
		r = world.SignReply(r, f.Key)
		return world.Action{Kind: "raw", Raw: world.Frame(r.Encode())}
	case "bad-entry":
		e := ref.AuthServer{PublicKey: keyFor("rogue-friend").Pub, Location: "127.0.0.1", TcpPort: 1, UdpPort: w.sink.Port}
		e.Sig = ref.Sign(f.Key, e.SigningBytes()) // signed by the server, not by the GCA
		return world.Action{Kind: "raw", Raw: world.Frame(w.validReply(f, []ref.AuthServer{e}).Encode())}
	case "truncated-entry":
		e := ref.AuthServer{PublicKey: keyFor("friend").Pub, Location: "127.0.0.1", TcpPort: 1, UdpPort: w.sink.Port}
		e.Sig = ref.Sign(w.gca, e.SigningBytes())
		r := w.validReply(f, []ref.AuthServer{e})
		body := r.Body()
		cut := rapid.IntRange(1, 100).Draw(t, "cut")
		// remove bytes from the middle of the entry, keep the trailer layout, re-sign
		mid := append(append([]byte{}, body[:576]...), body[576+cut:]...)
		binary.LittleEndian.PutUint64(mid[len(mid)-8:], uint64(time.Now().Unix()))
		sig := ref.Sign(f.Key, mid)
		return world.Action{Kind: "raw", Raw: world.Frame(append(mid, sig[:]...))}
	case "valid-ban-other":
		// a valid reply that announces (GCA-signed) that another configured server is banned
		var entries []ref.AuthServer
		for _, k := range w.keys {
			if k != f.Key.Pub && rapid.Bool().Draw(t, "banIt") {
				e := ref.AuthServer{PublicKey: k, Banned: true, Location: "127.0.0.1", TcpPort: 1, UdpPort: w.sink.Port}
				if rapid.Bool().Draw(t, "banByKeyOnly") {
					// a ban order that names the server by its key only (no location, no ports)
					e = ref.AuthServer{PublicKey: k, Banned: true}
				}
				e.Sig = ref.Sign(w.gca, e.SigningBytes())
				entries = append(entries, e)
			}
		}
		// ... or a server the client has never heard of
		entries = append(entries, w.strangerEntries(t, true)...)
		return world.Action{Kind: "raw", Raw: world.Frame(w.validReply(f, entries).Encode())}
	case "valid-announce":
		// a valid reply that lists (GCA-signed, not banned) servers the client may not know yet
		return world.Action{Kind: "raw", Raw: world.Frame(w.validReply(f, w.strangerEntries(t, false)).Encode())}
	case "valid-ban-self":
		// a valid reply in which the contacted server itself is listed as banned
		// (an honest server that the GCA has banned says so), optionally with others
		e := ref.AuthServer{PublicKey: f.Key.Pub, Banned: true, Location: "127.0.0.1", TcpPort: f.Port, UdpPort: w.sink.Port}
		e.Sig = ref.Sign(w.gca, e.SigningBytes())
		entries := []ref.AuthServer{e}
		for _, k := range w.keys {
			if k != f.Key.Pub && rapid.IntRange(0, 3).Draw(t, "banOtherToo") == 0 {
				o := ref.AuthServer{PublicKey: k, Banned: true, Location: "127.0.0.1", TcpPort: 1, UdpPort: w.sink.Port}
				o.Sig = ref.Sign(w.gca, o.SigningBytes())
				entries = append(entries, o)
			}
		}
		return world.Action{Kind: "raw", Raw: world.Frame(w.validReply(f, entries).Encode())}
	case "valid-self-migration":
		// a migration order that names the CURRENT GCA as the new one (correctly
		// signed by it, same short id), with every configured server listed as not
		// banned: nothing migrates, and what the client knows about bans stays
		var entries []ref.AuthServer
		for _, k := range w.keys {
			e := ref.AuthServer{PublicKey: k, Banned: false, Location: "127.0.0.1", TcpPort: 1, UdpPort: w.sink.Port}
			if fk, ok := w.fakeOf[k]; ok {
				e.TcpPort = fk.Port
			}
			e.Sig = ref.Sign(w.gca, e.SigningBytes())
			entries = append(entries, e)
		}
		r := ref.SyncReply{DeviceKey: w.dev.Pub, Servers: entries, NewGCA: w.gca.Pub, NewShortID: 5}
		for i := range r.Bitfield {
			r.Bitfield[i] = 0xff
		}
		m := ref.Migration{Equipment: w.dev.Pub, NewGCA: w.gca.Pub, NewShortID: 5, NewServers: entries}
		r.GCASig = ref.Sign(w.gca, m.SigningBytes())
		return world.Action{Kind: "raw", Raw: world.Frame(world.SignReply(r, f.Key).Encode())}
	case "valid-unban-attempt":
		var entries []ref.AuthServer
		for _, k := range w.keys {
			e := ref.AuthServer{PublicKey: k, Banned: false, Location: "127.0.0.1", TcpPort: 1, UdpPort: w.sink.Port}
			e.Sig = ref.Sign(w.gca, e.SigningBytes())
			entries = append(entries, e)
		}
		entries = append(entries, w.strangerEntries(t, false)...)
		return world.Action{Kind: "raw", Raw: world.Frame(w.validReply(f, entries).Encode())}
	default: // "valid"
		return world.Action{Kind: "raw", Raw: world.Frame(w.validReply(f, nil).Encode())}
	}
}

var c11Outcomes = []string{"close", "reset", "short-prefix", "short-body", "refusal-byte", "stall-then-close", "len-lt-72", "signed-72-711", "signed-large", "random-bytes", "bad-signature", "stale-timestamp", "wrong-device", "bad-entry", "truncated-entry", "valid-ban-other", "valid-ban-self", "valid-self-migration", "valid-unban-attempt", "valid-announce", "valid", "valid"}

func c11Failing(o string) bool {
	return !strings.HasPrefix(o, "valid")
}

func newC11World(t *rapid.T, oldSync bool) *c11World {
	client.VerifSetStepping(true)
	w := &c11World{t: t, dev: keyFor("c11-dev"), gca: keyFor("gca"), sink: world.NewUDPSink(), fakeOf: map[[32]byte]*world.FakeServer{}, queue: map[[32]byte][]string{}, told: map[[32]byte]bool{}}
	n := rapid.IntRange(1, 5).Draw(t, "servers")
	servers := map[[32]byte]ref.ClientServer{}
	for i := 0; i < n; i++ {
		k := keyFor(fmt.Sprintf("c11-srv-%d", i))
		banned := rapid.IntRange(0, 4).Draw(t, "initiallyBanned") == 0
		if rapid.IntRange(0, 4).Draw(t, "dead") == 0 {
			servers[k.Pub] = ref.ClientServer{Banned: banned, Location: "127.0.0.1", HttpPort: 1, TcpPort: world.DeadPort(), UdpPort: w.sink.Port}
			w.hist = append(w.hist, fmt.Sprintf("server %d: dead, banned=%v", i, banned))
		} else {
			f := world.NewFakeServer(k)
			w.fakes = append(w.fakes, f)
			w.fakeOf[k.Pub] = f
			servers[k.Pub] = f.ClientEntry(banned, w.sink.Port)
			w.hist = append(w.hist, fmt.Sprintf("server %d: fake, banned=%v", i, banned))
		}
		w.keys = append(w.keys, k.Pub)
	}
	w.energy.WriteString("timestamp,energy (mWh)\n")
	cfg := world.ClientCfg{Key: w.dev, GCA: w.gca.Pub, ShortID: 5, Servers: servers, Energy: w.energy.String()}
	w.dir = world.NewClientDir(cfg)
	if oldSync {
		os.WriteFile(filepath.Join(w.dir, "last-sync.txt"), []byte("1000"), 0644)
	}
	c, err := world.StartClient(w.dir)
	if err != nil {
		t.Fatalf("C11: NewClient: %v", err)
	}
	w.c = c
	for _, f := range w.fakes {
		f := f
		f.SetBehaviour(func(attempt int, req []byte) world.Action {
			// outcomes are queued by the harness before each round
			return w.nextAction(f)
		})
	}
	return w
}

var c11Mu sync.Mutex

// pending actions are resolved on the harness side before the round starts
// (rapid draws must not happen on server goroutines).
type c11Prepared struct {
	acts []world.Action
	i    int
}

var c11Prep = map[*world.FakeServer]*c11Prepared{}

func (w *c11World) nextAction(f *world.FakeServer) world.Action {
	c11Mu.Lock()
	defer c11Mu.Unlock()
	p := c11Prep[f]
	if p == nil || p.i >= len(p.acts) {
		return world.Action{Kind: "close"}
	}
	a := p.acts[p.i]
	// the behaviour callback is consulted twice per connection (before and
	// after reading the request); advance only on the second consultation
	return a
}

func (w *c11World) cleanup() {
	if w.c != nil {
		if w.c.VerifTryLock() {
			world.CloseClient(w.c)
		} else {
			w.c.VerifStop()
		}
	}
	world.StopAllLeakedClients()
	for _, f := range w.allFakes() {
		f.Close()
		c11Mu.Lock()
		delete(c11Prep, f)
		c11Mu.Unlock()
	}
	w.sink.Close()
	client.VerifPanics()
	os.RemoveAll(w.dir)
}

func bannedSet(m map[glow.PublicKey]client.GCAServer) map[[32]byte]bool {
	out := map[[32]byte]bool{}
	for k, v := range m {
		if v.Banned {
			out[[32]byte(k)] = true
		}
	}
	return out
}

func (w *c11World) fileBanned() (map[[32]byte]bool, int) {
	b, err := os.ReadFile(filepath.Join(w.dir, "gcaServers.dat"))
	if err != nil {
		w.fail("gcaServers.dat unreadable: %v", err)
	}
	ks, vs, err := ref.DecodeClientServerMap(b)
	if err != nil {
		w.fail("gcaServers.dat does not decode: %v", err)
	}
	out := map[[32]byte]bool{}
	for i := range ks {
		if vs[i].Banned {
			out[ks[i]] = true
		}
	}
	return out, len(ks)
}

// round prepares one outcome per possible connection and runs one sync round.
func (w *c11World) round(t *rapid.T) {
	before := w.c.VerifState()
	bannedBefore := bannedSet(before.Servers)
	dialsBefore := map[*world.FakeServer]int{}
	var plan []string
	prepared := map[*world.FakeServer]*c11Prepared{}
	for _, f := range w.allFakes() {
		dialsBefore[f] = f.Dials()
		o := rapid.SampledFrom(c11Outcomes).Draw(t, "outcome")
		prepared[f] = &c11Prepared{acts: []world.Action{w.action(f, o, t)}}
		w.queue[f.Key.Pub] = []string{o}
		plan = append(plan, fmt.Sprintf("%x..:%s", f.Key.Pub[:3], o))
	}
	// no rapid draw may happen while the lock is held (a draw can unwind the stack)
	c11Mu.Lock()
	for f, p := range prepared {
		c11Prep[f] = p
	}
	c11Mu.Unlock()
	w.hist = append(w.hist, fmt.Sprintf("round(%s)", strings.Join(plan, " ")))
	roundStart := time.Now()
	var ok bool
	func() {
		defer func() {
			if r := recover(); r != nil {
				w.fail("sync round panicked: %v", r)
			}
		}()
		ok = w.c.VerifSyncOnce(w.slot)
	}()
	if ps := client.VerifPanics(); len(ps) > 0 {
		w.fail("client goroutine panicked: %s: %s", ps[0].Where, ps[0].Value)
	}
	if !clientLockFree(w.c) {
		w.fail("the client mutex is still held after the sync round returned (%v)", ok)
	}
	after := w.c.VerifState()
	// selection: only servers not known as banned before the round, each at most once
	nonDial := false
	succeeded := ""
	var toldNow [][32]byte
	for _, f := range w.allFakes() {
		d := f.Dials() - dialsBefore[f]
		if d > 1 {
			w.fail("server %x.. was dialled %d times in one round (round started %s; accept log %v)", f.Key.Pub[:3], d, roundStart.Format("15:04:05.000000"), f.AcceptLog())
		}
		if d > 0 && bannedBefore[f.Key.Pub] {
			w.fail("server %x.. was dialled although the client knew it as banned", f.Key.Pub[:3])
		}
		if d > 0 && w.told[f.Key.Pub] {
			w.fail("server %x.. was dialled although an earlier accepted reply carried the GCA's ban of it", f.Key.Pub[:3])
		}
		if d > 0 {
			o := w.queue[f.Key.Pub][0]
			// whether the reply is acceptable is decided by the reference rule,
			// not by the generator's intent (a rogue server may well produce a
			// valid reply out of "arbitrary" content)
			acceptable := false
			if raw := prepared[f].acts[0]; raw.Kind == "raw" && len(raw.Raw) >= 2 && int(binary.LittleEndian.Uint16(raw.Raw)) == len(raw.Raw)-2 {
				r, why := ref.AcceptSyncReply(raw.Raw[2:], f.Key.Pub, w.dev.Pub, w.gca.Pub, time.Now().Unix(), ref.Verify)
				acceptable = why == ""
				if acceptable && r.NewGCA == ([32]byte{}) {
					for _, e := range r.Servers {
						if e.Banned {
							toldNow = append(toldNow, e.PublicKey)
						}
					}
				}
			}
			if !acceptable {
				nonDial = true
			} else {
				succeeded = o
				w.lastAnswered = f.Key.Pub
			}
		}
	}
	if ok && succeeded == "" {
		w.fail("round reported success although no server gave a valid reply")
	}
	if !ok && succeeded != "" {
		w.fail("a server gave an acceptable reply (%s) but the round reported failure", succeeded)
	}
	if nonDial || !ok {
		w.odd = true
	}
	// knowledge of bans only grows, in memory and on disk
	bannedAfter := bannedSet(after.Servers)
	for k := range bannedBefore {
		if !bannedAfter[k] {
			w.fail("server %x.. was known as banned and is not any more (after a round with %s)", k[:3], strings.Join(plan, " "))
		}
	}
	for _, k := range toldNow {
		w.told[k] = true
	}
	fb, n := w.fileBanned()
	for k := range w.told {
		if !bannedAfter[k] {
			w.fail("an accepted reply carried the GCA's ban of server %x.., and the client does not know it as banned (after a round with %s)", k[:3], strings.Join(plan, " "))
		}
		if !fb[k] {
			w.fail("the ban of server %x.. is not in gcaServers.dat", k[:3])
		}
	}
	if n != len(after.Servers) {
		w.fail("gcaServers.dat lists %d servers, memory %d", n, len(after.Servers))
	}
	for k := range bannedAfter {
		if !fb[k] {
			w.fail("server %x.. is banned in memory but not in gcaServers.dat", k[:3])
		}
	}
	if after.GCAPubKey != before.GCAPubKey || after.ShortID != before.ShortID {
		w.fail("GCA key or short id changed although no migration order was given")
	}
	if len(bannedAfter) > len(bannedBefore) {
		ev.Label("c11:ban-learned")
	}
	if ok {
		ev.Label("c11:round-succeeded")
	} else {
		ev.Label("c11:round-failed")
	}
	ev.Eval(1)
}

// tickEmits appends a reading for a new slot and requires the next granted
// tick to emit exactly that reading.
func (w *c11World) tickEmits() {
	// after 30 ticks the client's loop starts a sync round of its own, which
	// would run concurrently with the rounds the harness drives; restart before
	if w.ticks >= 26 {
		w.restart()
	}
	w.ticks++
	w.slot++
	g := int64(glow.GenesisTime)
	w.energy.WriteString(fmt.Sprintf("%d,%d\n", g+300*int64(w.slot)+3, 1000+int(w.slot)))
	world.WriteEnergy(w.dir, w.energy.String())
	w.hist = append(w.hist, fmt.Sprintf("tick(new reading slot %d)", w.slot))
	// datagrams of earlier ticks (after a restart a tick re-sends every reading
	// of the file) may still be on their way to the sink's reader
	w.sink.Settle(2 * time.Millisecond)
	base := w.sink.Count()
	st := w.c.VerifState()
	prim, havePrim := st.Servers[st.Primary]
	usable := havePrim && !prim.Banned
	if !world.Step(w.c, "tick") {
		w.fail("the reporting loop did not complete a granted tick within 10 s (wedged?) - lock free: %v", w.c.VerifTryLock())
	}
	if ps := client.VerifPanics(); len(ps) > 0 {
		w.fail("client goroutine panicked: %s: %s", ps[0].Where, ps[0].Value)
	}
	if havePrim && prim.Banned && [32]byte(st.Primary) == w.lastAnswered {
		// The selected server announced its OWN ban in the reply of the last
		// round: the ban became known after the selection. The property speaks
		// of selecting; whether the client keeps using that server until its
		// next round is not judged (the code does), only that the tick happens.
		w.sink.Settle(3 * time.Millisecond)
		ev.Label("c11:tick-after-self-ban-unjudged")
		return
	}
	if !usable {
		// every configured server is known as banned (or none is selected):
		// there is nobody to report to, and reporting to a banned server would
		// itself be a violation
		w.sink.Settle(3 * time.Millisecond)
		if w.sink.Count() != base {
			w.fail("a report was sent although the selected server is known as banned / no server is selected")
		}
		ev.Label("c11:tick-without-usable-server")
		return
	}
	if !w.sink.WaitCount(base+1, 2*time.Second) {
		w.fail("the reporting loop did not emit the new reading for slot %d", w.slot)
	}
	// the tick may emit several datagrams (all readings of the file after a
	// restart); wait for the one of the new reading, not just for the first
	found := world.WaitActive(2*time.Second, 500*time.Microsecond, func() bool {
		for _, b := range w.sink.All()[base:] {
			r, err := ref.DecodeReport(b)
			if err == nil && r.Timeslot == w.slot && r.Power == uint64(1000+w.slot) {
				return true
			}
		}
		return false
	})
	if !found {
		w.fail("the datagram for the new reading of slot %d was not emitted", w.slot)
	}
}

func (w *c11World) restart() {
	before := bannedSet(w.c.VerifState().Servers)
	w.hist = append(w.hist, "restart")
	if err := world.CloseClient(w.c); err != nil {
		w.fail("client does not shut down: %v", err)
	}
	c, err := world.StartClient(w.dir)
	if err != nil {
		w.c = nil
		w.fail("client does not restart: %v", err)
	}
	w.c = c
	w.ticks = 0
	st := c.VerifState()
	after := bannedSet(st.Servers)
	for k := range before {
		if !after[k] {
			w.fail("server %x.. was known as banned before the restart and is not after it", k[:3])
		}
	}
	for k := range w.told {
		if !after[k] {
			w.fail("the GCA's ban of server %x.. (carried by an accepted reply) is not known after the restart", k[:3])
		}
	}
	var keys []string
	nonBanned := 0
	for k, v := range st.Servers {
		keys = append(keys, fmt.Sprintf("%x:%v", k[:2], v.Banned))
		if !v.Banned {
			nonBanned++
		}
	}
	sort.Strings(keys)
	if nonBanned > 0 && st.Servers[st.Primary].Banned {
		w.fail("after restart the primary server is a banned one although %d non-banned servers exist (%v)", nonBanned, keys)
	}
	if _, ok := st.Servers[st.Primary]; !ok && nonBanned > 0 {
		w.fail("after restart the primary server is not in the server map")
	}
	ev.Label("c11:restart")
}

func TestC11Rounds(t *testing.T) {
	ev.Rule("C11: a client with 1-5 configured servers (dead = dial refused, or fake servers with their own keys; some initially banned) runs generated sync rounds; per connection a drawn outcome: close, reset, short length prefix, short body, refusal byte, length<72, lengths 72..711 and up to 65535 with a VALID signature and fresh timestamp by that server over arbitrary content, random bytes, wrong signer, stale/future timestamp, another device's key, entry not signed by the GCA, truncated entry, valid replies that ban other servers (GCA-signed) or try to un-ban, and 0-2 authorized servers that are NOT in the client's files, which replies ban (before or after the client hears of them) or announce as usable; between rounds new readings + granted ticks and restarts; oracle: no panic, client mutex free after every round, the next tick emits the new reading, no server dialled twice in a round or while known as banned, banned knowledge only grows in memory and in gcaServers.dat and survives restart, every ban carried by an accepted reply is known afterwards (also for a server the client had not heard of) and such a server is never dialled, primary not banned after restart; non-trivial = history with a non-dial failure, an all-failed round or a signed-but-malformed reply; distinct by history")
	rapid.Check(t, func(t *rapid.T) {
		w := newC11World(t, false)
		defer w.cleanup()
		w.addStrangers(t)
		t.Repeat(map[string]func(*rapid.T){
			"round":  w.round,
			"round2": w.round,
			"tick":   func(t *rapid.T) { w.tickEmits() },
			"restart": func(t *rapid.T) {
				w.restart()
			},
		})
		w.tickEmits()
		if w.odd {
			ev.NonTrivial(fmt.Sprintf("c11|%v", w.hist))
			ev.Label("c11:nontrivial")
			ev.Sample("c11:history", map[string]interface{}{"history": w.hist})
		}
	})
}

// TestC11ResyncAfterFailure uses the reporting loop's own scheduling: with an
// old last-sync file the first tick launches a round; all servers fail; within
// the next four ticks the servers must be dialled again.
func TestC11ResyncAfterFailure(t *testing.T) {
	ev.Rule("C11(resync): the client starts with an old last-sync time so that its own loop launches a round on the first tick; every server fails in a drawn way; after the failed round the loop must still take ticks and dial again within the next four ticks")
	rapid.Check(t, func(t *rapid.T) {
		w := newC11World(t, true)
		defer w.cleanup()
		st := w.c.VerifState()
		eligible := 0
		for _, f := range w.fakes {
			if !st.Servers[glow.PublicKey(f.Key.Pub)].Banned {
				eligible++
			}
		}
		var plan []string
		prepared := map[*world.FakeServer]*c11Prepared{}
		for _, f := range w.fakes {
			o := rapid.SampledFrom([]string{"close", "reset", "short-prefix", "len-lt-72", "signed-72-711", "random-bytes", "bad-signature", "refusal-byte"}).Draw(t, "outcome")
			a := w.action(f, o, t)
			prepared[f] = &c11Prepared{acts: []world.Action{a}}
			plan = append(plan, o)
		}
		c11Mu.Lock()
		for f, p := range prepared {
			c11Prep[f] = p
		}
		c11Mu.Unlock()
		w.hist = append(w.hist, fmt.Sprintf("all servers fail: %v", plan))
		total := func() int {
			n := 0
			for _, f := range w.fakes {
				n += f.Dials()
			}
			return n
		}
		ev.Eval(1)
		w.tickEmits() // ticks 30 -> 31: launches the first round
		if eligible == 0 {
			// nothing can be dialled; the loop must simply stay alive
			for i := 0; i < 5; i++ {
				w.tickEmits()
			}
			if !clientLockFree(w.c) {
				w.fail("client mutex held although no round can be running")
			}
			ev.Label("c11:resync-no-eligible-server")
			return
		}
		want := eligible
		if want > 5 {
			want = 5
		}
		world.WaitActive(6*time.Second, 5*time.Millisecond, func() bool { return total() >= want })
		time.Sleep(150 * time.Millisecond) // let the round finish after its last attempt
		if ps := client.VerifPanics(); len(ps) > 0 {
			w.fail("client goroutine panicked during its own sync round: %s: %s", ps[0].Where, ps[0].Value)
		}
		first := total()
		if first == 0 {
			w.fail("the loop's first sync round dialled no server although %d are eligible", eligible)
		}
		for i := 0; i < 4; i++ {
			w.tickEmits()
		}
		world.WaitActive(6*time.Second, 5*time.Millisecond, func() bool { return total() != first })
		if total() == first {
			w.fail("after a failed sync round the client did not try to sync again within the next four ticks (lock free: %v)", w.c.VerifTryLock())
		}
		time.Sleep(100 * time.Millisecond)
		ev.NonTrivial(fmt.Sprintf("c11|resync|%v|%d", plan, eligible))
		ev.Label("c11:resync-case")
	})
}

// TestC11StalledServer: a server accepts the connection and does not answer
// for a while. The sync attempt runs in its own goroutine (launched by the
// client's loop), so the reporting loop must keep emitting readings and the
// client mutex must stay free while the attempt hangs.
func TestC11StalledServer(t *testing.T) {
	ev.Rule("C11(stall): the client's own loop launches a sync round against a server that accepts and stays silent for 1.5-3 s; meanwhile 4-6 ticks with new readings are granted; oracle: every tick emits its reading, the mutex is free during the stall, no panic, a further round is started (a further connection arrives) while the first one still waits, and after the stall ends the round fails over / finishes")
	rapid.Check(t, func(t *rapid.T) {
		w := newC11World(t, true)
		defer w.cleanup()
		if len(w.fakes) == 0 {
			return
		}
		stall := time.Duration(rapid.IntRange(1500, 3000).Draw(t, "stallMs")) * time.Millisecond
		c11Mu.Lock()
		for _, f := range w.fakes {
			c11Prep[f] = &c11Prepared{acts: []world.Action{{Kind: "stall", StallFor: stall}}}
		}
		c11Mu.Unlock()
		w.hist = append(w.hist, fmt.Sprintf("every fake server stalls for %v", stall))
		st := w.c.VerifState()
		eligible := 0
		for _, f := range w.fakes {
			if !st.Servers[glow.PublicKey(f.Key.Pub)].Banned {
				eligible++
			}
		}
		ev.Eval(1)
		total := func() int {
			n := 0
			for _, f := range w.fakes {
				n += f.Dials()
			}
			return n
		}
		stallStart := time.Now()
		w.tickEmits() // launches the loop's sync round (old last-sync file)
		n := rapid.IntRange(4, 6).Draw(t, "ticksDuringStall")
		for i := 0; i < n; i++ {
			if !clientLockFree(w.c) {
				w.fail("the client mutex is held while a sync attempt waits for a silent server")
			}
			w.tickEmits()
		}
		if ps := client.VerifPanics(); len(ps) > 0 {
			w.fail("client goroutine panicked: %s: %s", ps[0].Where, ps[0].Value)
		}
		if eligible > 0 {
			// "tries to sync again later": the loop starts its next round four ticks
			// after an unsuccessful one, whether or not that one has returned - a
			// server that never answers must not be able to end all syncing
			world.WaitActive(1500*time.Millisecond, 5*time.Millisecond, func() bool { return total() >= 2 || time.Since(stallStart) > stall-200*time.Millisecond })
			if total() < 2 && time.Since(stallStart) < stall-200*time.Millisecond {
				w.fail("%d ticks after a sync round began to wait for a silent server, no further round has been started (connections so far: %d)", n, total())
			}
			if total() >= 2 {
				ev.Label("c11:new-round-while-one-hangs")
			}
			ev.NonTrivial(fmt.Sprintf("c11|stall|%v|%d|%d", stall, eligible, n))
			ev.Label("c11:stall-case")
		}
		// let the stalled attempts end before the fixtures are torn down
		time.Sleep(stall)
	})
}
