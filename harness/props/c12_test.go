//go:build test && verif

package props

// C12 - no untrusted input or peer failure can crash or wedge the server.
// Oracle: the panic witness (all server goroutines incl. request handlers)
// stays empty, a liveness probe is answered after every input, both mutexes
// are free at quiescence, and Close() returns in bounded time even with idle
// or half-sent connections and stalled peers.

import (
	"bytes"
	"encoding/binary"
	"encoding/hex"
	"encoding/json"
	"fmt"
	"io"
	"net"
	"net/http"
	"os"
	"strings"
	"syscall"
	"testing"
	"time"

	"github.com/glowlabs-org/gca-backend/glow"
	"github.com/glowlabs-org/gca-backend/server"
	"pgregory.net/rapid"

	"verif/harness/ev"
	"verif/harness/ref"
	"verif/harness/world"
)

var c12Routes = []string{"/api/v1/all-device-stats", "/api/v1/authorized-servers", "/api/v1/authorize-equipment", "/api/v1/equipment", "/api/v1/equipment-migrate", "/api/v1/register-gca", "/api/v1/recent-reports", "/api/v1/geo-stats", "/api/v1/archive", "/api/v1/", "/"}

func c12Query(t *rapid.T, w *world1) string {
	num := func(name string) string {
		return rapid.SampledFrom([]string{"0", "2015", "2016", "4032", "2147483648", "4294967295", "4294967296", "4294965280", "-1", "-2016", "0x7e0", "1e3", "", " ", "18446744073709551616", fmt.Sprint(w.s.M.Offset), fmt.Sprint(w.s.M.Offset + 2016), fmt.Sprint(w.s.M.Offset + 4032), fmt.Sprint(int64(w.s.M.Offset) - 2016)}).Draw(t, name)
	}
	switch rapid.IntRange(0, 6).Draw(t, "queryKind") {
	case 0:
		return ""
	case 1:
		return "?timeslot_offset=" + num("tso") + rapid.SampledFrom([]string{"", "&insert_false_negatives=true", "&insert_false_negatives=%zz"}).Draw(t, "fn")
	case 2:
		var k []byte
		switch rapid.IntRange(0, 3).Draw(t, "pkKind") {
		case 0:
			kk := w.devKey[w.devs[0]].Pub
			k = kk[:]
		case 1:
			k = w.bannedK.Pub[:]
		case 2:
			k = rapid.SliceOfN(rapid.Byte(), 0, 70).Draw(t, "pk")
		default:
			return "?publicKey=" + rapid.SampledFrom([]string{"zz", "0", "abc", strings.Repeat("f", 63), strings.Repeat("0", 65)}).Draw(t, "pkJunk")
		}
		return "?publicKey=" + hex.EncodeToString(k)
	case 3:
		return "?latitude=" + rapid.SampledFrom([]string{"0", "91", "-1e400", "NaN", "Inf", "abc", ""}).Draw(t, "lat") + "&longitude=" + rapid.SampledFrom([]string{"0", "181", "NaN", "x"}).Draw(t, "lon")
	case 4:
		return "?" + rapid.StringMatching(`[a-z_]{1,12}=[ -~]{0,12}`).Draw(t, "rndQuery")
	default:
		return "?timeslot_offset=" + num("tso2") + "&publicKey=" + num("pk2")
	}
}

func c12Body(t *rapid.T, w *world1) []byte {
	s := w.s
	switch rapid.IntRange(0, 12).Draw(t, "bodyKind") {
	case 0:
		return nil
	case 1:
		return rapid.SliceOfN(rapid.Byte(), 0, 300).Draw(t, "rnd")
	case 2:
		return []byte(rapid.SampledFrom([]string{"{}", "[]", "null", "0", `""`, `{"ShortID":"x"}`, `{"PublicKey":[1,2,3]}`, `{"GCAKey":[` + strings.Repeat("0,", 32) + `0]}`, `{"Signature":"zz"}`, `{"ShortID":-1}`, `{"ShortID":4294967296}`, `{"Latitude":1e999}`, `{"Capacity":1.5}`, `{"NewServers":[{}]}`, `{"NewServers":[null]}`, `{"Location":` + `"` + strings.Repeat("x", 300) + `"}`}).Draw(t, "json"))
	case 3:
		n := rapid.SampledFrom([]int{100, 9999, 10001, 200000}).Draw(t, "depth")
		return []byte(strings.Repeat("[", n))
	case 4:
		n := rapid.SampledFrom([]int{100, 20000}).Draw(t, "depth")
		return []byte(strings.Repeat(`{"a":`, n))
	case 5, 6: // validly signed authorization at extreme values
		// distinct ids carry distinct keys (DESIGN.md section 6: the admin tool
		// generates a key pair per device; a GCA signing one key for two ids is
		// outside the input domain and is known to upset CheckInvariants)
		aid := rapid.SampledFrom([]uint32{0, 1, 4294967295, 600, 601}).Draw(t, "id")
		a := ref.Auth{ShortID: aid, PublicKey: keyFor(fmt.Sprintf("c12-dev-id-%d", aid)).Pub,
			Latitude: finiteFloat(t, "lat"), Longitude: finiteFloat(t, "lon"), Capacity: drawU64(t, "cap"), Debt: drawU64(t, "debt"), Expiration: drawU32(t, "exp"), Initialization: drawU32(t, "ini"), ProtocolFee: drawU64(t, "fee")}
		a.Sig = ref.Sign(s.gca, a.SigningBytes())
		j, _ := json.Marshal(world.ToGlowAuth(a))
		return j
	case 7: // validly signed server authorization (peer down), long location
		// few keys and mostly bans, so that histories contain "known, banned, announced again"
		as := ref.AuthServer{PublicKey: keyFor(fmt.Sprintf("c12-peer-%d", rapid.IntRange(0, 1).Draw(t, "pk"))).Pub, Banned: rapid.IntRange(0, 2).Draw(t, "b") != 0,
			Location: rapid.SampledFrom([]string{"127.0.0.1", "", "no-such-host.invalid", strings.Repeat("h", 255), strings.Repeat("h", 300), "127.0.0.1:99999", "[::1", "%zz"}).Draw(t, "loc"), HttpPort: rapid.SampledFrom([]uint16{0, 1, 9, 65535}).Draw(t, "hp"), TcpPort: drawU16(t, "tp"), UdpPort: drawU16(t, "up")}
		as.Sig = ref.Sign(s.gca, as.SigningBytes())
		j, _ := json.Marshal(world.ToGlowServer(as))
		return j
	case 8: // validly signed migration order
		ng := keyFor("c12-newgca")
		m := ref.Migration{Equipment: w.devKey[w.devs[0]].Pub, NewGCA: ng.Pub, NewShortID: drawU32(t, "nid")}
		for i, n := 0, rapid.SampledFrom([]int{0, 1, 3, 40}).Draw(t, "nsrv"); i < n; i++ {
			e := ref.AuthServer{PublicKey: keyFor(fmt.Sprintf("c12-np-%d", i)).Pub, Location: strings.Repeat("L", rapid.SampledFrom([]int{0, 9, 255, 300}).Draw(t, "ll")), HttpPort: 1}
			e.Sig = ref.Sign(ng, e.SigningBytes())
			m.NewServers = append(m.NewServers, e)
		}
		m.Sig = ref.Sign(s.gca, m.SigningBytes())
		j, _ := json.Marshal(world.ToGlowMigration(m))
		return j
	case 9: // registration attempts
		reg := ref.Registration{GCAKey: keyFor("c12-othergca").Pub}
		reg.Sig = ref.Sign(rapid.SampledFrom([]ref.Key{s.temp, s.gca, keyFor("x")}).Draw(t, "rs"), reg.SigningBytes())
		j, _ := json.Marshal(server.GCARegistration{GCAKey: glow.PublicKey(reg.GCAKey), Signature: glow.Signature(reg.Sig)})
		return j
	default:
		return []byte(`{"ShortID":1,"PublicKey":[` + strings.TrimSuffix(strings.Repeat("255,", rapid.SampledFrom([]int{31, 32, 33}).Draw(t, "pklen")), ",") + `]}`)
	}
}

type c12Env struct {
	w     *world1
	s     *sess
	idle  []net.Conn
	hist  []string
	reach bool
}

func (e *c12Env) fail(format string, a ...interface{}) {
	e.s.hist = append(e.s.hist, e.hist...)
	e.s.fail(format, a...)
}

func (e *c12Env) probe(where string) {
	if ps := server.VerifPanics(); len(ps) > 0 {
		e.fail("server goroutine panicked after %s: %s: %s\n%s", where, ps[0].Where, ps[0].Value, trimStack(ps[0].Stack))
	}
	st, _, err := e.s.S.Get("/api/v1/equipment")
	if err != nil || st != 200 {
		e.fail("liveness probe (GET /equipment) failed after %s: %v %d", where, err, st)
	}
	a, b := e.s.S.S.VerifTryLocks()
	if !a || !b {
		// a request may still be in flight for a moment; retry briefly
		world.WaitActive(3*time.Second, 2*time.Millisecond, func() bool {
			a, b = e.s.S.S.VerifTryLocks()
			return a && b
		})
		if !a || !b {
			e.fail("a server mutex is still held 2 s after %s (server mutex free: %v, server-list mutex free: %v)", where, a, b)
		}
	}
}

// c12Coherent draws a request whose method, route, query and body belong
// together (so that it gets past the cheap rejections into the handler body),
// with boundary values in the parameters.
func c12Coherent(t *rapid.T, w *world1) (method, route, q string, body []byte) {
	off := int64(w.s.M.Offset)
	switch rapid.IntRange(0, 9).Draw(t, "coherent") {
	case 0, 1:
		weeks := []int64{0, 2016, off - 2016, off, off + 2016, off + 4032, off + 6048, 4294965280}
		v := weeks[rapid.IntRange(0, len(weeks)-1).Draw(t, "week")]
		if v < 0 {
			v = 0
		}
		return "GET", "/api/v1/all-device-stats", fmt.Sprintf("?timeslot_offset=%d%s", v, rapid.SampledFrom([]string{"", "&insert_false_negatives=true"}).Draw(t, "fn")), nil
	case 2:
		k := w.devKey[w.devs[0]].Pub
		if rapid.Bool().Draw(t, "bannedKey") {
			k = w.bannedK.Pub
		}
		return "GET", "/api/v1/recent-reports", "?publicKey=" + hex.EncodeToString(k[:]), nil
	case 3:
		return "GET", rapid.SampledFrom([]string{"/api/v1/equipment", "/api/v1/authorized-servers", "/api/v1/archive"}).Draw(t, "plainGet"), "", nil
	case 4:
		return "GET", "/api/v1/geo-stats", "?latitude=45.5&longitude=-122.5", nil
	case 5, 6:
		for {
			if b := c12Body(t, w); len(b) > 0 && bytes.Contains(b, []byte("Capacity")) {
				return "POST", "/api/v1/authorize-equipment", "", b
			}
		}
	case 7:
		for {
			if b := c12Body(t, w); len(b) > 0 && bytes.Contains(b, []byte("GCAAuthorization")) {
				return "POST", "/api/v1/authorized-servers", "", b
			}
		}
	case 8:
		for {
			if b := c12Body(t, w); len(b) > 0 && bytes.Contains(b, []byte("NewGCA")) {
				return "POST", "/api/v1/equipment-migrate", "", b
			}
		}
	default:
		for {
			if b := c12Body(t, w); len(b) > 0 && bytes.Contains(b, []byte("GCAKey")) {
				return "POST", "/api/v1/register-gca", "", b
			}
		}
	}
}

func (e *c12Env) httpInput(t *rapid.T) {
	w := e.w
	method := rapid.SampledFrom([]string{"GET", "GET", "POST", "POST", "PUT", "DELETE", "HEAD", "PATCH", "OPTIONS", "FOO"}).Draw(t, "method")
	route := rapid.SampledFrom(c12Routes).Draw(t, "route")
	q := c12Query(t, w)
	body := c12Body(t, w)
	if rapid.Bool().Draw(t, "coherentRequest") {
		method, route, q, body = c12Coherent(t, w)
	}
	desc := fmt.Sprintf("%s %s%s body=%dB", method, route, q, len(body))
	e.hist = append(e.hist, desc)
	req, err := http.NewRequest(method, fmt.Sprintf("http://127.0.0.1:%d%s%s", e.s.S.HTTP, route, q), bytes.NewReader(body))
	if err != nil {
		return // not expressible as an HTTP request
	}
	status, _, err := world.HTTPOnce(req, 120*time.Second)
	if err == nil {
		if strings.HasPrefix(route, "/api/v1/") && len(route) > 9 {
			e.reach = e.reach || status != http.StatusMethodNotAllowed
		}
	}
	if ps := server.VerifPanics(); len(ps) > 0 {
		e.fail("request handler panicked on %s: %s\n%s", desc, ps[0].Value, trimStack(ps[0].Stack))
	}
	if err != nil && !strings.Contains(err.Error(), "Timeout") && !strings.Contains(err.Error(), "deadline") {
		// A transport error is judged only for a request without a body. With a
		// body, net/http itself may answer and close before the body was read
		// (e.g. 400 for a request line with a space in it, which the generator
		// produces): the kernel then resets the connection and the reset can
		// overtake the response. That is not the server under test; its handlers
		// are covered by the panic witness above and the liveness probe below.
		if len(body) == 0 {
			e.fail("%s ended without a response: %v", desc, err)
		}
		ev.Label("c12:http-transport-error-with-body-unjudged")
	}
}

func (e *c12Env) tcpInput(t *rapid.T) {
	w := e.w
	ids := []uint32{w.devs[0], w.banned, 0, 4294967295, 12345}
	var req []byte
	var id [4]byte
	binary.LittleEndian.PutUint32(id[:], rapid.SampledFrom(ids).Draw(t, "tcpID"))
	kind := rapid.SampledFrom([]string{"full", "full", "extra", "half", "half-keep", "idle", "connect-close"}).Draw(t, "tcpKind")
	switch kind {
	case "full":
		req = id[:]
	case "extra":
		req = append(id[:], rapid.SliceOfN(rapid.Byte(), 1, 4).Draw(t, "extra")...)
	case "half", "half-keep":
		req = id[:rapid.IntRange(1, 3).Draw(t, "halfLen")]
	}
	e.hist = append(e.hist, fmt.Sprintf("tcp %s %x", kind, req))
	conn, err := net.DialTimeout("tcp", fmt.Sprintf("127.0.0.1:%d", e.s.S.TCP), 2*time.Second)
	if err != nil {
		e.fail("cannot connect to the sync port: %v", err)
	}
	if len(req) > 0 {
		conn.Write(req)
	}
	switch kind {
	case "idle", "half-keep":
		e.idle = append(e.idle, conn) // left open until after shutdown
		e.reach = true
		return
	case "connect-close", "half":
		conn.Close()
		return
	}
	conn.SetDeadline(time.Now().Add(90 * time.Second))
	reply, err := io.ReadAll(conn)
	conn.Close()
	if err != nil {
		if kind == "extra" {
			// the server closes with unread request bytes pending, TCP may turn
			// that into a reset before the reply is read: not a server matter
			return
		}
		e.fail("sync request %x got no complete reply: %v", req, err)
	}
	if len(reply) == 1 && reply[0] == 0 {
		return
	}
	if len(reply) < 2 || int(binary.LittleEndian.Uint16(reply)) != len(reply)-2 && len(reply)-2 < 65536 {
		e.fail("sync reply to %x is neither the refusal byte nor a framed reply (%d bytes)", req, len(reply))
	}
	e.reach = true
}

func (e *c12Env) udpInput(t *rapid.T) {
	d := e.w.genDatagram(t)
	e.hist = append(e.hist, fmt.Sprintf("udp %s len=%d now=%d off=%d", d.class, len(d.b), e.s.now, e.s.S.VerifSnapshot().Offset))
	if err := e.s.S.SendUDP(d.b); err != nil {
		if ps := server.VerifPanics(); len(ps) > 0 {
			e.fail("report handler panicked on a %s datagram: %s\n%s", d.class, ps[0].Value, trimStack(ps[0].Stack))
		}
		e.fail("datagram not processed: %v", err)
	}
	if len(d.b) >= 80 {
		e.reach = true
	}
}

func TestC12Inputs(t *testing.T) {
	ev.Rule("C12(inputs): per case a world (window week 0..3, devices, banned id, optionally authorized peers that are down) and 60-150 inputs at drawn clock values from before the window to beyond two windows (incl. offset+3600..offset+4032+432) with rotation steps in between: datagrams from the C01 generator; TCP sync requests of 0-8 bytes for known/unknown/banned ids, half-sent and idle connections; HTTP requests with method in {GET,POST,PUT,DELETE,HEAD,PATCH,OPTIONS,FOO} x 11 routes x queries (numbers at 0, 2015, 2016, 2^31, 2^32-1, 2^32, negative, hex, junk; public keys of any length) x bodies (random bytes, wrong-shape JSON, wrong-length arrays, nesting up to 200000, validly signed authorizations / server authorizations / migration orders / registrations at extreme field values); oracle: no panic in any server goroutine or handler, every request gets a response, GET /equipment answers and both mutexes are free after every input, Close() returns; non-trivial = input that reaches a handler body / the report integration / a sync reply; distinct by input description")
	rapid.Check(t, func(t *rapid.T) {
		k := rapid.IntRange(0, 3).Draw(t, "week")
		w := buildWorld(t, "C12", k, rapid.IntRange(1, 2).Draw(t, "nDev"), true)
		s := w.s
		defer s.cleanup()
		e := &c12Env{w: w, s: s}
		defer func() {
			for _, c := range e.idle {
				c.Close()
			}
		}()
		if rapid.IntRange(0, 2).Draw(t, "restartFirst") == 0 {
			// the inputs meet a server that has been through a restart: its state
			// (the banned id included) was rebuilt from the files
			s.restart(s.now)
			e.hist = append(e.hist, "server restarted before the inputs")
			ev.Label("c12:inputs-after-restart")
		}
		if rapid.Bool().Draw(t, "peersDown") {
			for i := 0; i < rapid.IntRange(1, 2).Draw(t, "nPeers"); i++ {
				as := ref.AuthServer{PublicKey: keyFor(fmt.Sprintf("c12-down-%d", i)).Pub, Location: "127.0.0.1", HttpPort: world.DeadPort(), TcpPort: 1, UdpPort: 1}
				as.Sig = ref.Sign(s.gca, as.SigningBytes())
				s.S.S.VerifInstallAuthorizedServer(world.ToGlowServer(as))
			}
			e.hist = append(e.hist, "authorized peers that are down installed")
		}
		if rapid.Bool().Draw(t, "bannedPeerKnown") {
			// a peer the server already knows as banned: further announcements for its key will arrive
			as := ref.AuthServer{PublicKey: keyFor("c12-peer-0").Pub, Banned: true, Location: "127.0.0.1", HttpPort: 1, TcpPort: 1, UdpPort: 1}
			as.Sig = ref.Sign(s.gca, as.SigningBytes())
			s.S.S.VerifInstallAuthorizedServer(world.ToGlowServer(as))
			e.hist = append(e.hist, "a banned peer installed")
		}
		n := rapid.IntRange(60, 150).Draw(t, "inputs")
		for i := 0; i < n; i++ {
			e.reach = false
			if rapid.IntRange(0, 5).Draw(t, "moveClock") == 0 {
				off := int64(s.S.VerifSnapshot().Offset)
				var now int64
				switch rapid.IntRange(0, 4).Draw(t, "clockClass") {
				case 4:
					// exactly at the ends of the window and one week further (where the
					// clock stands after the first of two catch-up rotations)
					now = off + rapid.SampledFrom([]int64{4031, 4032, 4033, 6047, 6048, 6049, 2016, 8064}).Draw(t, "exactEdge")
				case 0:
					now = off + rapid.Int64Range(3600, 4032+432).Draw(t, "edge")
				case 1:
					now = off + rapid.Int64Range(-500, 2*4032+500).Draw(t, "wide")
				default:
					now = off + rapid.Int64Range(0, 3000).Draw(t, "normal")
				}
				if now < 0 {
					now = 0
				}
				s.now = uint32(now)
				s.M.Offset = uint32(off) // the generators use the real offset; the model is not maintained here
				glow.SetCurrentTimeslot(uint32(now))
				e.hist = append(e.hist, fmt.Sprintf("clock %d (offset %d)", now, off))
			}
			kind := rapid.SampledFrom([]string{"udp", "udp", "tcp", "http", "http", "http", "rotate", "impact"}).Draw(t, "inputKind")
			switch kind {
			case "udp":
				e.udpInput(t)
			case "tcp":
				e.tcpInput(t)
			case "http":
				e.httpInput(t)
			case "rotate":
				e.hist = append(e.hist, "rotation step")
				if !world.Step(s.S.S, "migrate") {
					e.fail("rotation loop did not complete a granted step")
				}
				s.M.Offset = s.S.VerifSnapshot().Offset
			case "impact":
				// the impact-data job runs at whatever the clock says, too
				e.hist = append(e.hist, fmt.Sprintf("impact-data step (clock %d, offset %d)", s.now, s.S.VerifSnapshot().Offset))
				if !world.Step(s.S.S, "impact") {
					if ps := server.VerifPanics(); len(ps) > 0 {
						e.fail("impact-data job panicked: %s: %s", ps[0].Where, ps[0].Value)
					}
					e.fail("impact-data job did not complete a granted step")
				}
				e.reach = true
			}
			e.probe(e.hist[len(e.hist)-1])
			ev.Eval(1)
			ev.Label("c12:input-" + kind)
			if e.reach {
				ev.NonTrivial("c12|" + e.hist[len(e.hist)-1])
				ev.Label("c12:reached-handler")
				ev.Sample("c12:"+kind, e.hist[len(e.hist)-1])
			}
		}
		// shutdown with whatever is still connected
		t0 := world.ActiveNow()
		glow.SetCurrentTimeslot(s.S.VerifSnapshot().Offset)
		err := s.S.Close()
		s.closed = true
		if err != nil && (strings.HasPrefix(err.Error(), "panic:") || strings.HasPrefix(err.Error(), "timeout:")) {
			e.fail("shutdown with %d idle/half-sent connections failed: %v", len(e.idle), err)
		}
		if d := world.ActiveNow() - t0; d > 2*server.VerifConsts().ServerShutdownTime {
			e.fail("shutdown took %v with %d idle/half-sent connections (bound %v)", d, len(e.idle), 2*server.VerifConsts().ServerShutdownTime)
		}
		if ps := server.VerifPanics(); len(ps) > 0 {
			e.fail("panic during shutdown: %s: %s", ps[0].Where, ps[0].Value)
		}
		if len(e.idle) > 0 {
			ev.Label("c12:shutdown-with-idle-connections")
		}
	})
}

// TestC12CatchUpTraffic sends reports while the start-up catch-up loop is
// rotating the window (the UDP listener is already open then).
func TestC12CatchUpTraffic(t *testing.T) {
	ev.Rule("C12(catch-up): a server with a registered GCA and a device is stopped, the clock is moved 1-4 weeks ahead and the server is started again; from the verif point before every catch-up rotation a pre-drawn batch of validly signed reports for slots at the edges of the intermediate window (offset+4031, +4032, +4033, now-432..now+432) is sent to the already open UDP port; oracle: no panic, start-up completes, the server answers afterwards and shuts down")
	rapid.Check(t, func(t *rapid.T) {
		w := buildWorld(t, "C12", rapid.IntRange(0, 1).Draw(t, "week"), 1, false)
		s := w.s
		defer s.cleanup()
		id := w.devs[0]
		key := w.devKey[id]
		off := int64(s.M.Offset)
		now := off + 4000 + 2016*rapid.Int64Range(0, 3).Draw(t, "weeks") + rapid.Int64Range(0, 2015).Draw(t, "phase")
		type rep struct {
			rel   string
			delta int64
			power uint64
		}
		var batch []rep
		for i, n := 0, rapid.IntRange(3, 12).Draw(t, "batch"); i < n; i++ {
			r := rep{power: rapid.SampledFrom([]uint64{2, 500, 1 << 63, 1<<63 - 1}).Draw(t, "power")}
			if rapid.Bool().Draw(t, "relOffset") {
				r.rel, r.delta = "offset", rapid.SampledFrom([]int64{4030, 4031, 4032, 4033, 3600, 2016, 0}).Draw(t, "dOff")
			} else {
				r.rel, r.delta = "now", rapid.SampledFrom([]int64{-432, -431, 0, 431, 432}).Draw(t, "dNow")
			}
			batch = append(batch, r)
		}
		s.close()
		s.now = uint32(now)
		glow.SetCurrentTimeslot(uint32(now))
		fired := 0
		sent := 0
		server.VerifOn("yield:migrate:before-lock", func(g *server.GCAServer, name string) {
			fired++
			_, _, udp := g.Ports()
			if udp == 0 {
				return
			}
			conn, err := net.DialUDP("udp", nil, &net.UDPAddr{IP: net.IPv4(127, 0, 0, 1), Port: int(udp)})
			if err != nil {
				return
			}
			defer conn.Close()
			curOff := int64(g.VerifSnapshot().Offset)
			for _, r := range batch {
				slot := curOff + r.delta
				if r.rel == "now" {
					slot = now + r.delta
				}
				if slot < 0 || slot > 4294967295 {
					continue
				}
				before := g.VerifUDPHandled()
				conn.Write(ref.SignedReport(key, id, uint32(slot), r.power).Encode())
				world.WaitActive(4*time.Second, 50*time.Microsecond, func() bool { return g.VerifUDPHandled() != before })
				sent++
			}
		})
		s.logf("restart at clock %d with %d-report batches sent before every catch-up rotation", now, len(batch))
		srv, err := world.StartServer(s.dir)
		server.VerifOn("yield:migrate:before-lock", nil)
		if ps := server.VerifPanics(); len(ps) > 0 {
			s.fail("server goroutine panicked during start-up catch-up: %s: %s\n%s", ps[0].Where, ps[0].Value, trimStack(ps[0].Stack))
		}
		if err != nil {
			s.fail("server does not start while reports arrive during catch-up: %v", err)
		}
		s.S = srv
		s.closed = false
		st, _, err := s.S.Get("/api/v1/equipment")
		if err != nil || st != 200 {
			s.fail("server does not answer after start-up: %v %d", err, st)
		}
		if a, b := serverLocksFree(s.S.S); !a || !b {
			s.fail("a server mutex is held after start-up")
		}
		ev.Eval(sent)
		if fired > 0 && sent > 0 {
			ev.NonTrivial(fmt.Sprintf("c12|catchup|%d|%v", now-off, batch))
			ev.Label("c12:catch-up-traffic")
			ev.Sample("c12:catch-up", map[string]interface{}{"clock_minus_offset": now - off, "rotations": fired, "reports_sent": sent})
		}
		glow.SetCurrentTimeslot(s.S.VerifSnapshot().Offset)
		if err := s.S.Close(); err != nil && (strings.HasPrefix(err.Error(), "panic:") || strings.HasPrefix(err.Error(), "timeout:")) {
			s.fail("shutdown failed: %v", err)
		}
		s.closed = true
	})
}

// TestC12Shutdown: bounded shutdown with idle / half-sent sync connections
// and a peer that accepts connections and never answers.
func TestC12Shutdown(t *testing.T) {
	ev.Rule("C12(shutdown): 0-5 idle or half-sent sync connections and optionally an authorized peer that accepts and stalls (a new device is authorized while it stalls, other requests must keep being answered); oracle: Close() returns within 2 x serverShutdownTime and nothing panics")
	bound := 2 * server.VerifConsts().ServerShutdownTime
	rapid.Check(t, func(t *rapid.T) {
		w := buildWorld(t, "C12", 0, 1, false)
		s := w.s
		defer s.cleanup()
		nIdle := rapid.IntRange(0, 5).Draw(t, "idle")
		var conns []net.Conn
		defer func() {
			for _, c := range conns {
				c.Close()
			}
		}()
		for i := 0; i < nIdle; i++ {
			c, err := net.Dial("tcp", fmt.Sprintf("127.0.0.1:%d", s.S.TCP))
			if err != nil {
				t.Fatal(err)
			}
			if k := rapid.IntRange(0, 3).Draw(t, "sentBytes"); k > 0 {
				c.Write(make([]byte, k))
			}
			conns = append(conns, c)
		}
		// idle and half-sent HTTP connections
		nHTTP := rapid.IntRange(0, 3).Draw(t, "idleHTTP")
		for i := 0; i < nHTTP; i++ {
			c, err := net.Dial("tcp", fmt.Sprintf("127.0.0.1:%d", s.S.HTTP))
			if err != nil {
				t.Fatal(err)
			}
			switch rapid.IntRange(0, 2).Draw(t, "httpPartial") {
			case 1:
				c.Write([]byte("GET /api/v1/equipment HTTP/1.1\r\nHost: x\r\n"))
			case 2:
				c.Write([]byte("POST /api/v1/authorize-equipment HTTP/1.1\r\nHost: x\r\nContent-Length: 500\r\n\r\n{\"ShortID\":"))
			}
			conns = append(conns, c)
		}
		// a peer that asks for a sync reply far larger than the socket buffers (a
		// migration order with a huge location) and then never reads it
		unread := rapid.IntRange(0, 2).Draw(t, "unreadLargeReply") == 0
		if unread {
			ng := keyFor("c12-big-gca")
			big := ref.AuthServer{PublicKey: keyFor("c12-big-peer").Pub, Location: strings.Repeat("L", rapid.SampledFrom([]int{8 << 20, 12 << 20}).Draw(t, "bigLocation")), HttpPort: 1, TcpPort: 1, UdpPort: 1}
			big.Sig = ref.Sign(ng, big.SigningBytes())
			m := ref.Migration{Equipment: w.devKey[w.devs[0]].Pub, NewGCA: ng.Pub, NewShortID: 7, NewServers: []ref.AuthServer{big}}
			m.Sig = ref.Sign(s.gca, m.SigningBytes())
			s.S.S.VerifInstallMigration(world.ToGlowMigration(m))
			c, err := net.Dial("tcp", fmt.Sprintf("127.0.0.1:%d", s.S.TCP))
			if err != nil {
				t.Fatal(err)
			}
			if tc, ok := c.(*net.TCPConn); ok {
				tc.SetReadBuffer(4096) // a small receive window: the reply cannot simply vanish into socket buffers
			}
			var id [4]byte
			binary.LittleEndian.PutUint32(id[:], w.devs[0])
			c.Write(id[:])
			conns = append(conns, c)
			time.Sleep(30 * time.Millisecond) // let the handler start writing
			nIdle++
			ev.Label("c12:shutdown-with-unread-large-reply")
		}
		// a client that asks for the (large) equipment list and then does not read
		// the answer: whatever the handler holds while it writes, it must not be
		// something the rest of the server needs
		if rapid.Bool().Draw(t, "stalledReader") {
			// which large answer the client sits on: the equipment list of 260
			// devices, or 8 pipelined requests for a device's recent reports
			// (about 0.7 MB each, whatever the history)
			sitOn := rapid.SampledFrom([]string{"equipment", "recent-reports"}).Draw(t, "sitOn")
			request := "GET /api/v1/equipment HTTP/1.1\r\nHost: x\r\n\r\n"
			if sitOn == "recent-reports" {
				pk := w.devKey[w.devs[0]].Pub
				request = strings.Repeat("GET /api/v1/recent-reports?publicKey="+hex.EncodeToString(pk[:])+" HTTP/1.1\r\nHost: x\r\n\r\n", 8)
			}
			for i := 0; i < 260 && sitOn == "equipment"; i++ {
				a := ref.Auth{ShortID: uint32(5000 + i), PublicKey: keyFor(fmt.Sprintf("c12-many-%d", i)).Pub, Capacity: 9, Latitude: 1.5, Longitude: -2.5}
				a.Sig = ref.Sign(s.gca, a.SigningBytes())
				if st, _, err := s.S.Authorize(a); err != nil || st != 200 {
					s.fail("authorization of device %d failed: %v %d", a.ShortID, err, st)
				}
			}
			// small receive buffer and segment size, set BEFORE the connection is made,
			// so that the reply cannot vanish into socket buffers
			dialer := net.Dialer{Control: func(network, address string, rc syscall.RawConn) error {
				return rc.Control(func(fd uintptr) {
					syscall.SetsockoptInt(int(fd), syscall.SOL_SOCKET, syscall.SO_RCVBUF, 4096)
					syscall.SetsockoptInt(int(fd), syscall.IPPROTO_TCP, syscall.TCP_MAXSEG, 1400)
				})
			}}
			c, err := dialer.Dial("tcp", fmt.Sprintf("127.0.0.1:%d", s.S.HTTP))
			if err != nil {
				t.Fatal(err)
			}
			c.Write([]byte(request))
			conns = append(conns, c)
			nHTTP++
			time.Sleep(150 * time.Millisecond) // let the handler fill the socket buffers
			done := make(chan string, 1)
			go func() {
				if st, _, err := s.S.Get("/api/v1/all-device-stats?timeslot_offset=0"); err != nil || st != 200 {
					done <- fmt.Sprintf("GET all-device-stats: %v %d", err, st)
					return
				}
				if !unread { // (with the huge order installed that device's reply cannot be framed)
					if _, refused, err := s.S.SyncDevice(w.devs[0]); err != nil || refused {
						done <- fmt.Sprintf("sync request: %v refused=%v", err, refused)
						return
					}
				}
				if err := s.S.SendUDP(ref.SignedReport(w.devKey[w.devs[0]], w.devs[0], s.now, 6).Encode()); err != nil {
					done <- fmt.Sprintf("report: %v", err)
					return
				}
				done <- ""
			}()
			if !world.WaitActive(6*time.Second, 5*time.Millisecond, func() bool { return len(done) > 0 }) {
				s.fail("statistics / sync / report are not answered within 6 s of active time while a client sits on an unread answer (%s)", sitOn)
			}
			if why := <-done; why != "" {
				s.fail("while a client sits on an unread answer (%s): %s", sitOn, why)
			}
			ev.Label("c12:shutdown-with-stalled-reader-of-large-response")
			ev.Label("c12:stalled-reader-of-" + sitOn)
		}
		stall := rapid.Bool().Draw(t, "stalledPeer")
		var ln net.Listener
		if stall {
			var err error
			ln, err = net.Listen("tcp", "127.0.0.1:0")
			if err != nil {
				t.Fatal(err)
			}
			defer ln.Close()
			go func() {
				for {
					c, err := ln.Accept()
					if err != nil {
						return
					}
					defer c.Close()
				}
			}()
			as := ref.AuthServer{PublicKey: keyFor("c12-stall").Pub, Location: "127.0.0.1", HttpPort: uint16(ln.Addr().(*net.TCPAddr).Port), TcpPort: 1, UdpPort: 1}
			as.Sig = ref.Sign(s.gca, as.SigningBytes())
			s.S.S.VerifInstallAuthorizedServer(world.ToGlowServer(as))
			// authorizing a new device now forwards to the stalled peer
			a := ref.Auth{ShortID: 900, PublicKey: keyFor("c12-dev-stall").Pub, Capacity: 5}
			a.Sig = ref.Sign(s.gca, a.SigningBytes())
			go func() {
				hc := &http.Client{Timeout: 1 * time.Second}
				j, _ := json.Marshal(world.ToGlowAuth(a))
				resp, err := hc.Post(fmt.Sprintf("http://127.0.0.1:%d/api/v1/authorize-equipment", s.S.HTTP), "application/json", bytes.NewReader(j))
				if err == nil {
					resp.Body.Close()
				}
			}()
			time.Sleep(50 * time.Millisecond)
			// other requests keep being answered while that handler waits for the peer
			st, _, err := s.S.Get("/api/v1/equipment")
			if err != nil || st != 200 {
				s.fail("GET /equipment not answered while another handler waits for a stalled peer: %v %d", err, st)
			}
			if err := s.S.SendUDP(ref.SignedReport(w.devKey[w.devs[0]], w.devs[0], s.now, 5).Encode()); err != nil {
				s.fail("reports not processed while a handler waits for a stalled peer: %v", err)
			}
			// every other surface, in particular those that need the server-list mutex
			probeDone := make(chan string, 1)
			pk := w.devKey[w.devs[0]].Pub
			go func() {
				for _, path := range []string{"/api/v1/authorized-servers", "/api/v1/all-device-stats?timeslot_offset=0", "/api/v1/recent-reports?publicKey=" + hex.EncodeToString(pk[:])} {
					if st, _, err := s.S.Get(path); err != nil || st != 200 {
						probeDone <- fmt.Sprintf("GET %s: %v %d", path, err, st)
						return
					}
				}
				// (with the huge migration order installed the device's own reply is
				// longer than the two-byte length prefix can say: not probed then)
				if !unread {
					if _, refused, err := s.S.SyncDevice(w.devs[0]); err != nil || refused {
						probeDone <- fmt.Sprintf("sync request: %v refused=%v", err, refused)
						return
					}
				}
				probeDone <- ""
			}()
			if !world.WaitActive(4*time.Second, 5*time.Millisecond, func() bool { return len(probeDone) > 0 }) {
				s.fail("other requests (authorized-servers / statistics / recent-reports / sync) are not answered within 4 s of active time while a handler waits for a stalled peer")
			}
			if why := <-probeDone; why != "" {
				s.fail("while a handler waits for a stalled peer: %s", why)
			}
			if _, b := serverLocksFree(s.S.S); !b {
				s.fail("the server-list mutex is held while a handler waits for a stalled peer")
			}
		}
		s.logf("shutdown with %d idle/half-sent sync connections, %d idle/half-sent HTTP connections, stalled peer=%v", nIdle, nHTTP, stall)
		t0 := world.ActiveNow()
		err := s.S.Close()
		d := world.ActiveNow() - t0 // active time: a frozen sandbox does not count
		s.closed = true
		ev.Eval(1)
		if err != nil && (strings.HasPrefix(err.Error(), "panic:") || strings.HasPrefix(err.Error(), "timeout:")) {
			s.fail("shutdown with %d idle/half-sent connections (stalled peer=%v) failed: %v", nIdle, stall, err)
		}
		if d > bound {
			s.fail("shutdown took %v with %d idle/half-sent connections (stalled peer=%v); bound %v", d, nIdle, stall, bound)
		}
		if ps := server.VerifPanics(); len(ps) > 0 {
			s.fail("panic during shutdown: %s: %s", ps[0].Where, ps[0].Value)
		}
		if nIdle > 0 || stall || nHTTP > 0 {
			ev.NonTrivial(fmt.Sprintf("c12|shutdown|%d|%d|%v", nIdle, nHTTP, stall))
			ev.Label("c12:shutdown-nontrivial")
			ev.Sample("c12:shutdown", map[string]interface{}{"idle_or_half_sent_sync": nIdle, "idle_or_half_sent_http": nHTTP, "stalled_peer": stall, "close_seconds": d.Seconds()})
		}
		_ = os.Remove
	})
}
