//go:build test && verif

package props

import (
	"fmt"
	"testing"

	"pgregory.net/rapid"

	"verif/harness/ev"
)

func histKey(prop string, h *hist) string {
	return fmt.Sprintf("%s|%v", prop, h.s.hist)
}

func histSample(h *hist) map[string]interface{} {
	hs := h.s.hist
	if len(hs) > 40 {
		hs = append(append([]string{}, hs[:20]...), append([]string{"..."}, hs[len(hs)-19:]...)...)
	}
	return map[string]interface{}{"steps": len(h.s.hist), "flags": fmt.Sprintf("%+v", h.f), "history": hs}
}

// C03 - weekly statistics equal the accepted reports and never change once archived.
func TestC03History(t *testing.T) {
	ev.Rule("C03: rapid state machine (authorize/ban, reports, clock advances incl. the 3200/3600/3999 boundaries and whole weeks, granted rotation and impact steps, restarts needing 0/1/several catch-up rotations, statistics queries for archived/live/future/misaligned/garbage weeks with and without insert_false_negatives and junk parameters); oracle: every rotation must archive exactly the model's first-half values and the impact rates observed just before it, label and server signature over the reference layout, contiguous weeks, first served record of an archived week is remembered and every later plain GET must be byte-identical, allDeviceStats.dat equals the concatenated reference serialisations; non-trivial = history with >=1 rotation that archives a non-zero slot and a later re-query of an archived week after further traffic; distinct by history")
	rapid.Check(t, func(t *rapid.T) {
		preDev := rapid.SampledFrom([]int{1, 2, 1, 2, 1, 0}).Draw(t, "preDevices")
		h := newHist(t, histOpts{prop: "C03", preRegistered: true, preDevices: preDev, allowRotation: true, allowImpact: true, allowStatsQuery: true,
			weights: map[string]int{"report": 2, "bulk": 3, "stats": 4, "clock": 3, "stepMigrate": 3, "stepImpact": 2, "restart": 1, "authorize": 1, "crossCheck": 1}})
		defer h.s.cleanup()
		// Prelude (constructed, so that the interesting shape is common): traffic
		// in the first week, impact data, a rotation, a first query of the
		// archived week. The generated machine then continues from there and the
		// final cross-check re-queries every archived week.
		if preDev == 0 {
			// weeks archived while no device is authorized (records without devices
			// are the shortest the archive file can hold), then a device, a
			// restart, and the archived weeks are asked for again
			s := h.s
			s.setClock(s.M.Offset + 3201 + uint32(rapid.SampledFrom([]int{0, 500, 798, 2016, 4100, 9000}).Draw(t, "emptyTrigger")))
			h.actStepMigrate(t)
			h.actStats(t)
			h.actAuthorize(t)
			h.restartAt(s.now)
			for i := range s.M.Archive {
				s.checkArchivedServed(i, [32]byte(s.S.VerifSnapshot().ServerPub))
			}
			ev.Label("C03:empty-weeks-prelude")
		} else if rapid.IntRange(0, 4).Draw(t, "prelude") != 0 {
			s := h.s
			s.setClock(s.M.Offset + uint32(rapid.IntRange(100, 1500).Draw(t, "preludeClock")))
			for i, n := 0, rapid.IntRange(1, 3).Draw(t, "preludeBulks"); i < n; i++ {
				h.actBulk(t)
				if rapid.Bool().Draw(t, "preludeImpact") {
					s.stepImpact()
				}
			}
			s.setClock(s.M.Offset + 3201 + uint32(rapid.IntRange(0, 700).Draw(t, "preludeTrigger")))
			h.actStepMigrate(t)
			h.actStats(t)
			if len(s.M.Archive) > 0 {
				s.checkArchivedServed(len(s.M.Archive)-1, [32]byte(s.S.VerifSnapshot().ServerPub))
			}
		}
		h.run(t)
		if h.f.rotationWithData && h.f.trafficSinceRotation {
			h.f.queriedArchivedAfter = true // the final cross-check re-queried every archived week
		}
		if h.f.rotationWithData {
			ev.Label("C03:history-with-data-rotation")
		}
		if h.f.falseNegQuery {
			ev.Label("C03:false-negative-query-on-archived-week")
		}
		if h.f.rotationWithData && h.f.queriedArchivedAfter {
			ev.NonTrivial(histKey("C03", h))
			ev.Label("C03:nontrivial")
			ev.Sample("C03:history", histSample(h))
		}
	})
}

// C04 - restart preserves every accepted fact.
func TestC04History(t *testing.T) {
	ev.Rule("C04: the same state machine with a restart forced after every action in half of the cases (restart after every prefix) and drawn otherwise, double restarts, restart clocks needing 0, 1 or several catch-up rotations; oracle: NewGCAServer succeeds and the complete state (GCA key, devices, bans, key index, every slot, offset, archive) equals the model plus the catch-up rotations; a second restart changes nothing; non-trivial = restart with a banned device, a banned slot or an archived week in the state; distinct by history")
	rapid.Check(t, func(t *rapid.T) {
		every := rapid.Bool().Draw(t, "restartAfterEveryStep")
		h := newHist(t, histOpts{prop: "C04", preRegistered: rapid.IntRange(0, 3).Draw(t, "prereg") != 0, preDevices: 1, restartEvery: every, allowRotation: true, allowRegProbes: true,
			weights: map[string]int{"report": 3, "bulk": 1, "authorize": 3, "clock": 2, "stepMigrate": 2, "restart": 2}})
		defer h.s.cleanup()
		h.run(t)
		if every {
			ev.Label("C04:restart-after-every-step")
		}
		if h.f.restarts > 0 && (h.f.restartWithBan || h.f.restartWithSlotBan || h.f.restartWithArchive) {
			ev.NonTrivial(histKey("C04", h))
			ev.Label("C04:nontrivial")
			ev.Sample("C04:history", histSample(h))
		}
		if h.f.restartWithBan {
			ev.Label("C04:restart-with-banned-device")
		}
		if h.f.restartWithSlotBan {
			ev.Label("C04:restart-with-banned-slot")
		}
		if h.f.restartWithArchive {
			ev.Label("C04:restart-with-archive")
		}
	})
}

// C06 - equipment changes need the GCA's signature; a conflict bans exactly one id.
func TestC06History(t *testing.T) {
	ev.Rule("C06: state machine over authorizations through the JSON endpoint (new with fresh keys and any finite latitude/longitude, exact duplicates, conflicts differing in exactly one drawn field incl. the public key, 1-ulp and sign-of-zero changes, conflicts reusing another live device's key, forged and foreign signatures by temp/server/device/other-GCA keys, submissions for banned ids) interleaved with reports and restarts; oracle: reference model of devices and bans, bit-exact GET /equipment, key lookup of every other device, banned ids absent from equipment/recent-reports/sync/live statistics, archived weeks unchanged, the server's CheckInvariants after every ban and at the end, equipment-authorizations.dat equals accepted+conflicting records in order; non-trivial = conflict while >=2 devices are registered, or reusing another device's key, or a restart after a ban; distinct by history")
	rapid.Check(t, func(t *rapid.T) {
		h := newHist(t, histOpts{prop: "C06", preRegistered: true, preDevices: rapid.IntRange(0, 2).Draw(t, "preDevices"), extremeFloats: true, allowRotation: rapid.Bool().Draw(t, "withRotation"), allowStatsQuery: true,
			weights: map[string]int{"authorize": 6, "report": 3, "restart": 1, "stats": 1}})
		defer h.s.cleanup()
		h.run(t)
		if h.f.conflictMultiDev || h.f.conflictForeignKey || (h.f.restartWithBan) {
			ev.NonTrivial(histKey("C06", h))
			ev.Label("C06:nontrivial")
			ev.Sample("C06:history", histSample(h))
		}
		if h.f.conflictForeignKey {
			ev.Label("C06:conflict-reusing-other-key")
		}
	})
}

// C07 - GCA registration is one-shot, gated by the temporary key, irreversible.
func TestC07History(t *testing.T) {
	ev.Rule("C07: state machine starting unregistered: registration attempts (valid, signed by the candidate itself / the server key / a random key, key altered after signing, replay after success and after restart, by the GCA itself), concurrent batches of 2-8 simultaneous valid registrations for different candidates, and authority probes (equipment authorization, POST authorized-servers, POST equipment-migrate) signed by the temp key, losing candidates, the server key and the winner; oracle: nothing is authorized before the first accepted registration, exactly one registration ever returns 200 (schedule-independent), the key on disk and in memory is the winner's forever, only its signatures are honoured; non-trivial = history with >=2 registration attempts or a batch; distinct by history")
	rapid.Check(t, func(t *rapid.T) {
		h := newHist(t, histOpts{prop: "C07", preRegistered: false, allowRegProbes: true, allowBatches: true})
		defer h.s.cleanup()
		h.run(t)
		if h.f.regAttempts >= 2 || h.f.batch {
			ev.NonTrivial(histKey("C07", h))
			ev.Label("C07:nontrivial")
			ev.Sample("C07:history", histSample(h))
		}
		if h.f.batch {
			ev.Label("C07:history-with-batch")
		}
	})
}
