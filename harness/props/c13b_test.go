//go:build test && verif

package props

import (
	"fmt"
	"testing"
	"time"

	"github.com/glowlabs-org/gca-backend/glow"
	"github.com/glowlabs-org/gca-backend/server"
	"pgregory.net/rapid"

	"verif/harness/ev"
	"verif/harness/ref"
	"verif/harness/world"
)

// TestC13RotationAtomicity - a rotation (archive the first week, shift the
// window) must be one step for everybody else. At every instrumented point
// inside the rotation the harness looks whether the server mutex happens to
// be free; if it is, it delivers - synchronously, from inside the rotation - a
// report that the clock rule admits at that moment (such a report always
// belongs to the week that stays: the trigger of the rotation lies further
// from the closing week than the acceptance range reaches). Whichever side of
// the shift the report lands on, the final state must be the one the model
// gives for {report, rotation}; both orders agree on it. On code that keeps
// the mutex through the rotation nothing can be delivered inside, the report
// is delivered right after the step and the case checks the plain sequence.
func TestC13RotationAtomicity(t *testing.T) {
	ev.Rule("C13(atomic rotation): one device with reports in both weeks; the rotation loop is granted one step with the clock past the trigger; a callback at a drawn point inside the rotation (before/after the archive file is written, after the window shift) probes the server mutex and, if it is free there, delivers a validly signed report for a drawn acceptable slot and waits until the listener has handled it; otherwise the report is delivered right after the step; oracle: the complete state afterwards equals the model for {report, rotation} (the report sits in the shifted window, recent reports and the log exactly once; the archived week equals the model); non-trivial = every case with a rotation; distinct by (slots, clock, point)")
	rapid.Check(t, func(t *rapid.T) {
		ev.Eval(1)
		server.VerifSetStepping(true)
		temp, gca, dk := keyFor("temp"), keyFor("gca"), keyFor("c13a-dev")
		s := newSess(t, "C13", temp, 0)
		defer s.cleanup()
		s.start()
		s.register(gca, temp, true)
		a := ref.Auth{ShortID: 1, PublicKey: dk.Pub, Capacity: 1 << 40}
		a.Sig = ref.Sign(gca, a.SigningBytes())
		s.authorize(a, "new")
		used := map[uint32]bool{}
		for i, n := 0, rapid.IntRange(0, 8).Draw(t, "before"); i < n; i++ {
			slot := uint32(rapid.IntRange(0, 3600).Draw(t, "slot"))
			if used[slot] {
				continue
			}
			used[slot] = true
			s.setClock(slot)
			s.datagram(ref.SignedReport(dk, 1, slot, uint64(100+i)).Encode(), "traffic")
		}
		now := uint32(3201 + rapid.IntRange(0, 798).Draw(t, "trigger"))
		s.setClock(now)
		var inj uint32
		for {
			inj = now - 432 + uint32(rapid.IntRange(0, 864).Draw(t, "injectSlot"))
			if !used[inj] && inj < 4032 {
				break
			}
		}
		injected := ref.SignedReport(dk, 1, inj, 777)
		point := rapid.SampledFrom([]string{"crash:rotate:before-save", "crash:rotate:after-save", "crash:rotate:after-shift"}).Draw(t, "point")
		delivered, handled := false, false
		server.VerifOn(point, func(g *server.GCAServer, name string) {
			if delivered {
				return
			}
			if free, _ := g.VerifTryLocks(); !free {
				return // the rotation holds the mutex here: nothing can get in between
			}
			delivered = true
			before := g.VerifUDPHandled()
			if err := s.S.SendUDPNoWait(injected.Encode()); err != nil {
				return
			}
			handled = world.WaitActive(3*time.Second, 200*time.Microsecond, func() bool { return g.VerifUDPHandled() > before })
		})
		pre := s.S.VerifSnapshot()
		rotated := s.stepMigrateRaw()
		server.VerifClearCallbacks()
		s.checkPanics("rotation step")
		if !rotated {
			s.fail("the rotation loop did not rotate at clock %d (offset 0)", now)
		}
		if delivered && !handled {
			s.fail("a report sent while the rotation was at %s (mutex free there) was not handled within 3 s", point)
		}
		if delivered {
			s.logf("report for slot %d delivered inside the rotation at %s", inj, point)
			s.M.Apply(injected)
			s.modelRotate(pre)
		} else {
			s.modelRotate(pre)
			s.datagram(injected.Encode(), "report right after the rotation")
		}
		s.compare(s.S.VerifSnapshot(), "report and rotation")
		s.crossCheckAPI()
		ev.NonTrivial(fmt.Sprintf("c13a|%d|%d|%s|%v", inj, now, point, delivered))
		if delivered {
			ev.Label("c13:atomic-delivered-inside-rotation")
		} else {
			ev.Label("c13:atomic-mutex-kept-through-rotation")
		}
		glow.SetCurrentTimeslot(0)
	})
}
