package props

import (
	"bufio"
	"encoding/json"
	"fmt"
	"os"
	"strings"
	"testing"

	"verif/harness/ev"
)

func TestMain(m *testing.M) {
	loadKnown()
	code := m.Run()
	ev.Flush()
	os.Exit(code)
}

// tier returns "quick" or "thorough".
func tier() string {
	if os.Getenv("VERIF_TIER") == "thorough" {
		return "thorough"
	}
	return "quick"
}

func thorough() bool { return tier() == "thorough" }

// pick returns q in the quick tier and th in the thorough tier.
func pick(q, th int) int {
	if thorough() {
		return th
	}
	return q
}

// seedFromEnv returns the effective rapid seed chosen by the driver.
func seedFromEnv() int64 {
	var n int64
	fmt.Sscan(os.Getenv("VERIF_SEED_EFFECTIVE"), &n)
	if n == 0 {
		n = 1
	}
	return n
}

// knownFindings maps a known-finding id to its description; read from the
// committed known_findings.txt (path in VERIF_KNOWN). Never written.
var knownFindings = map[string]string{}

func loadKnown() {
	path := os.Getenv("VERIF_KNOWN")
	if path == "" {
		return
	}
	f, err := os.Open(path)
	if err != nil {
		return
	}
	defer f.Close()
	sc := bufio.NewScanner(f)
	for sc.Scan() {
		line := strings.TrimSpace(sc.Text())
		if !strings.HasPrefix(line, "known:") {
			continue
		}
		for _, tok := range strings.Fields(line) {
			if strings.HasPrefix(tok, "id=") {
				knownFindings[strings.TrimPrefix(tok, "id=")] = line
			}
		}
	}
}

func isKnown(id string) bool { _, ok := knownFindings[id]; return ok }

// journal records the case about to run, so that a case that kills the
// process can still be reported and replayed.
func journal(v interface{}) {
	path := os.Getenv("VERIF_JOURNAL")
	if path == "" {
		return
	}
	b, err := json.Marshal(v)
	if err != nil {
		b = []byte(fmt.Sprintf("%q", fmt.Sprint(v)))
	}
	os.WriteFile(path, b, 0644)
}

// lastCase writes the human-readable form of the case being executed; the
// last one written before a failure is the minimal one after shrinking.
func lastCase(v interface{}) {
	path := os.Getenv("VERIF_LASTCASE")
	if path == "" {
		return
	}
	b, err := json.MarshalIndent(v, "", " ")
	if err != nil {
		b = []byte(fmt.Sprint(v))
	}
	os.WriteFile(path, b, 0644)
}
