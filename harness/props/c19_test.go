package props

// C19 - the rate limiter never admits more than the limit per window and never
// starves. Real goroutines call Allow() on generated arrival schedules; every
// call records monotonic [before, after] readings, and the oracle only speaks
// when a violation is certain whatever the true instants inside the intervals
// were (interval arithmetic). Scheduling noise only widens intervals.

import (
	"fmt"
	"sort"
	"sync"
	"testing"
	"time"

	"github.com/glowlabs-org/gca-backend/glow"
	"pgregory.net/rapid"

	"verif/harness/ev"
)

type rlCall struct {
	before, after time.Duration // since schedule start (monotonic)
	ok            bool
	g             int
}

type rlSchedule struct {
	Limit      int
	WindowMs   int
	Goroutines int
	Pattern    string
	Calls      int
	PaceX100   int
}

// rlJudge returns a description of a certain violation, or "".
func rlJudge(limit int, window time.Duration, calls []rlCall) string {
	var adm []rlCall
	for _, c := range calls {
		if c.ok {
			adm = append(adm, c)
		}
	}
	sort.Slice(adm, func(i, j int) bool { return adm[i].before < adm[j].before })
	// (1) limit+1 admitted calls that certainly lie within one window
	for i := range adm {
		lo := adm[i].before
		n := 0
		var worst time.Duration
		for j := i; j < len(adm); j++ {
			if adm[j].before-lo >= window {
				break
			}
			if adm[j].after-lo < window {
				n++
				if adm[j].after-lo > worst {
					worst = adm[j].after - lo
				}
			}
		}
		if n > limit {
			return fmt.Sprintf("%d calls admitted within %v (< window %v), limit %d; first starts at +%v", n, worst, window, limit, lo)
		}
	}
	// (2) a rejected call that cannot have had `limit` admitted calls in its preceding window
	for _, c := range calls {
		if c.ok {
			continue
		}
		n := 0
		for _, a := range adm {
			if a.after > c.before-window && a.before <= c.after {
				n++
			}
		}
		if n < limit {
			return fmt.Sprintf("call at +[%v,%v] rejected although at most %d (< limit %d) admitted calls can lie in its preceding window %v", c.before, c.after, n, limit, window)
		}
	}
	return ""
}

func rlRun(s rlSchedule) []rlCall {
	window := time.Duration(s.WindowMs) * time.Millisecond
	rl := glow.NewRateLimiter(s.Limit, window)
	start := time.Now()
	var wg sync.WaitGroup
	results := make([][]rlCall, s.Goroutines)
	startGate := make(chan struct{})
	for g := 0; g < s.Goroutines; g++ {
		wg.Add(1)
		go func(g int) {
			defer wg.Done()
			<-startGate
			out := make([]rlCall, 0, s.Calls)
			call := func() {
				b := time.Since(start)
				ok := rl.Allow()
				a := time.Since(start)
				out = append(out, rlCall{before: b, after: a, ok: ok, g: g})
			}
			switch s.Pattern {
			case "tight":
				for i := 0; i < s.Calls; i++ {
					call()
				}
			case "burst":
				// bursts of limit+2 calls, separated by pace x window
				per := s.Limit + 2
				for i := 0; i < s.Calls; i++ {
					call()
					if (i+1)%per == 0 {
						time.Sleep(window * time.Duration(s.PaceX100) / 100)
					}
				}
			case "paced":
				for i := 0; i < s.Calls; i++ {
					call()
					time.Sleep(window * time.Duration(s.PaceX100) / 100)
				}
			case "staggered":
				// one early call, a burst shortly before it expires, a burst shortly
				// after: a limiter that forgets too much admits up to 2*limit-1 here
				if g == 0 {
					call()
					time.Sleep(window * 70 / 100)
					for i := 0; i < s.Limit-1; i++ {
						call()
					}
					time.Sleep(window * 35 / 100)
					for i := 0; i < s.Limit+1; i++ {
						call()
					}
				}
			case "spread":
				// goroutines start at different phases, then call at pace x window / limit
				time.Sleep(window * time.Duration(g%8) / 8)
				for i := 0; i < s.Calls; i++ {
					call()
					time.Sleep(window * time.Duration(s.PaceX100) / 100 / time.Duration(s.Limit))
				}
			}
			results[g] = out
		}(g)
	}
	close(startGate)
	wg.Wait()
	var all []rlCall
	for _, r := range results {
		all = append(all, r...)
	}
	return all
}

func TestC19RateLimiter(t *testing.T) {
	ev.Rule("C19: rapid draws (limit 1..10, window in {2,5,24,60} ms, 1..64 goroutines, arrival pattern tight/burst/paced/spread/staggered (one early call, a burst just before it expires, a burst just after) with pace 0.5x/0.9x/1.1x/2x the window); real goroutines call RateLimiter.Allow and record monotonic [before,after]; oracle = interval arithmetic: a violation is reported only if limit+1 admitted calls certainly fit inside one window, or a rejected call certainly had fewer than limit admitted calls in its preceding window; non-trivial = schedule with >=1 rejection and >=1 admission after a rejection; distinct by schedule parameters")
	rapid.Check(t, func(t *rapid.T) {
		s := rlSchedule{
			Limit:      rapid.IntRange(1, 10).Draw(t, "limit"),
			WindowMs:   rapid.SampledFrom([]int{2, 5, 24, 60}).Draw(t, "windowMs"),
			Goroutines: rapid.SampledFrom([]int{1, 1, 2, 3, 4, 8, 16, 32, 64}).Draw(t, "goroutines"),
			Pattern:    rapid.SampledFrom([]string{"tight", "burst", "paced", "spread", "staggered"}).Draw(t, "pattern"),
			PaceX100:   rapid.SampledFrom([]int{50, 90, 110, 200}).Draw(t, "paceX100"),
		}
		// bound the schedule to roughly 4 windows of wall time
		switch s.Pattern {
		case "tight":
			s.Calls = rapid.IntRange(1, 400).Draw(t, "calls")
		case "burst":
			s.Calls = (s.Limit + 2) * rapid.IntRange(1, 4).Draw(t, "bursts")
		case "paced":
			s.Calls = rapid.IntRange(2, 6).Draw(t, "calls")
		case "spread":
			s.Calls = rapid.IntRange(2, 4*s.Limit).Draw(t, "calls")
		case "staggered":
			s.Calls = 2*s.Limit + 1
			if s.WindowMs < 24 {
				s.WindowMs = 24 // the stagger needs sleeps that are long compared with scheduling noise
			}
		}
		window := time.Duration(s.WindowMs) * time.Millisecond // after all adjustments of the schedule
		lastCase(s)
		ev.Eval(1)
		calls := rlRun(s)
		if v := rlJudge(s.Limit, window, calls); v != "" {
			t.Fatalf("C19: %s; schedule %+v", v, s)
		}
		sort.Slice(calls, func(i, j int) bool { return calls[i].before < calls[j].before })
		rej, admAfterRej := false, false
		for _, c := range calls {
			if !c.ok {
				rej = true
			} else if rej {
				admAfterRej = true
			}
		}
		ev.Label("c19:pattern-" + s.Pattern)
		if rej {
			ev.Label("c19:has-rejection")
		}
		if rej && admAfterRej {
			ev.Label("c19:nontrivial")
			ev.NonTrivial(fmt.Sprintf("c19|%+v", s))
			ev.Sample("c19:"+s.Pattern, map[string]interface{}{"schedule": s, "calls": len(calls)})
		}
	})
}

// The judge itself is checked on synthetic call logs, so that a silent judge
// cannot go unnoticed.
func TestC19JudgeSelfCheck(t *testing.T) {
	ms := time.Millisecond
	// 2 admitted within 1 ms for limit 1, window 10 ms: certain violation
	if rlJudge(1, 10*ms, []rlCall{{0, 1 * ms / 10, true, 0}, {1 * ms / 2, 1 * ms, true, 0}}) == "" {
		t.Fatal("judge missed an over-admission")
	}
	// rejected with nothing admitted before: certain violation
	if rlJudge(1, 10*ms, []rlCall{{0, ms, false, 0}}) == "" {
		t.Fatal("judge missed a starvation")
	}
	// admitted, rejected inside the window, admitted after the window: fine
	if v := rlJudge(1, 10*ms, []rlCall{{0, ms, true, 0}, {2 * ms, 3 * ms, false, 0}, {12 * ms, 13 * ms, true, 0}}); v != "" {
		t.Fatal("judge raised a false alarm: " + v)
	}
	// two admitted whose intervals are wide enough to be a window apart: silent
	if v := rlJudge(1, 10*ms, []rlCall{{0, ms, true, 0}, {8 * ms, 11 * ms, true, 0}}); v != "" {
		t.Fatal("judge raised a false alarm on an uncertain case: " + v)
	}
}
