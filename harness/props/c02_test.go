//go:build test && verif

package props

// C02 - one report per device-timeslot; equivocation or over-capacity bans the
// slot. The oracle is the set function of the property: for the set S of
// distinct valid reports received for a (device, slot), the published value is
// 0 if S is empty, 1 if |S| >= 2 or a member's non-negative power exceeds 135%
// of the capacity, else the single member's power. It is evaluated (a)
// exhaustively for all sequences up to length 4 over a 6-letter alphabet, (b)
// on random long histories over several devices and slots with replays, and
// (c) metamorphically on two servers that receive the same multiset in
// different orders.

import (
	"fmt"
	"math"
	"sort"
	"testing"

	"github.com/glowlabs-org/gca-backend/glow"
	"github.com/glowlabs-org/gca-backend/server"
	"pgregory.net/rapid"

	"verif/harness/ev"
	"verif/harness/ref"
)

// setValue is f(S).
func setValue(S map[string]ref.Report, capacity uint64) uint64 {
	if len(S) == 0 {
		return 0
	}
	if len(S) >= 2 {
		return 1
	}
	for _, r := range S {
		if ref.OverCapacity(r.Power, capacity) {
			return 1
		}
		return r.Power
	}
	return 0
}

type c02Letter struct {
	name string
	mk   func(key ref.Key, id, slot uint32, capacity uint64) ref.Report
}

func altSigned(key ref.Key, r ref.Report, salt byte) ref.Report {
	for n := byte(0); ; n++ {
		sig, ok := ref.SignWithNonce(key, r.SigningBytes(), []byte{salt, n})
		if ok && sig != ref.Sign(key, r.SigningBytes()) {
			r.Sig = sig
			return r
		}
	}
}

func c02Alphabet() []c02Letter {
	return []c02Letter{
		{"A", func(k ref.Key, id, slot uint32, c uint64) ref.Report { return ref.SignedReport(k, id, slot, 40) }},
		{"A'", func(k ref.Key, id, slot uint32, c uint64) ref.Report {
			return altSigned(k, ref.Report{ShortID: id, Timeslot: slot, Power: 40}, 1)
		}},
		{"B", func(k ref.Key, id, slot uint32, c uint64) ref.Report { return ref.SignedReport(k, id, slot, 41) }},
		{"limit", func(k ref.Key, id, slot uint32, c uint64) ref.Report {
			return ref.SignedReport(k, id, slot, limitOf(c))
		}},
		{"limit+1", func(k ref.Key, id, slot uint32, c uint64) ref.Report {
			return ref.SignedReport(k, id, slot, limitOf(c)+1)
		}},
		{"negative", func(k ref.Key, id, slot uint32, c uint64) ref.Report {
			return ref.SignedReport(k, id, slot, math.MaxUint64-999)
		}},
	}
}

// c02Fixture: one stepped server at offset 0 with devices of given capacities.
func c02Fixture(t TB, caps []uint64) (*sess, []uint32, []ref.Key) {
	server.VerifSetStepping(true)
	temp, gca := keyFor("temp"), keyFor("gca")
	s := newSess(t, "C02", temp, 0)
	s.start()
	s.register(gca, temp, true)
	var ids []uint32
	var keys []ref.Key
	for i, c := range caps {
		id := uint32(100 + i)
		k := keyFor(fmt.Sprintf("dev-%d", i))
		a := ref.Auth{ShortID: id, PublicKey: k.Pub, Capacity: c}
		a.Sig = ref.Sign(gca, a.SigningBytes())
		if s.authorize(a, "new") != ref.AuthNew {
			s.fail("harness: authorization not new")
		}
		ids = append(ids, id)
		keys = append(keys, k)
	}
	return s, ids, keys
}

func TestC02ExhaustiveShortSequences(t *testing.T) {
	ev.Rule("C02(i): EXHAUSTIVE - all 1555 sequences of length 0..4 (thorough tier: all 9331 of length 0..5) over the alphabet {A, A' (same content, second valid signature), B, limit, limit+1, negative} for one slot, each on a fresh (device, slot); oracle f(S) on the set of distinct datagrams + full-state comparison with the sequential model after every datagram")
	const capacity = 1000 // limit 1350
	s, ids, keys := c02Fixture(t, []uint64{capacity, capacity, capacity, capacity, capacity, capacity, capacity, capacity, capacity})
	defer func() { s.cleanup() }()
	alpha := c02Alphabet()
	var seqs [][]int
	maxLen := 4
	if thorough() {
		maxLen = 5 // 9331 sequences
	}
	var rec func(prefix []int)
	rec = func(prefix []int) {
		seqs = append(seqs, append([]int(nil), prefix...))
		if len(prefix) == maxLen {
			return
		}
		for i := range alpha {
			rec(append(prefix, i))
		}
	}
	rec(nil)
	if (maxLen == 4 && len(seqs) != 1555) || (maxLen == 5 && len(seqs) != 9331) {
		t.Fatalf("harness: %d sequences", len(seqs))
	}
	// slots 0..4031 of three devices give 12096 fresh (device, slot) pairs; a
	// fresh server is taken every 2000 sequences (a server of the test build
	// ends the process after 120 s of life, which a loaded machine can reach
	// within one long enumeration)
	next := 0
	for si, seq := range seqs {
		if si > 0 && si%2000 == 0 {
			s.crossCheckAPI()
			s.close()
			s.cleanup()
			s, ids, keys = c02Fixture(t, []uint64{capacity, capacity, capacity, capacity, capacity, capacity, capacity, capacity, capacity})
			next = 0
		}
		dev := next / 4032
		slot := uint32(next % 4032)
		next++
		if dev >= 3 {
			t.Fatalf("harness: out of fresh slots")
		}
		s.setClock(slot)
		S := map[string]ref.Report{}
		names := ""
		for _, li := range seq {
			r := alpha[li].mk(keys[dev], ids[dev], slot, capacity)
			names += alpha[li].name + " "
			s.datagram(r.Encode(), alpha[li].name)
			S[string(r.Encode())] = r
			got := s.S.VerifSnapshot().Reports[ids[dev]][slot].PowerOutput
			if want := setValue(S, capacity); got != want {
				s.fail("sequence [%s] on device %d slot %d: published value %d, set rule gives %d", names, ids[dev], slot, got, want)
			}
			ev.Eval(1)
		}
		if len(seq) >= 2 {
			ev.NonTrivial("c02|seq|" + names)
		}
		if len(seq) >= 4 && next%97 == 0 {
			ev.Sample("c02:exhaustive-sequence", map[string]interface{}{"sequence": names, "final": setValue(S, capacity)})
		}
	}
	// The slots at the edges of the window and of its two weeks, each with the
	// sequences that exercise every rule (the enumeration above reaches the last
	// slots of the window only in the thorough tier): one device per sequence.
	edgeSeqs := [][]int{{0}, {0, 2}, {4}, {5, 0}, {0, 1, 0}, {3, 3}}
	for k, seq := range edgeSeqs {
		dev := 3 + k
		for _, slot := range []uint32{0, 1, 2015, 2016, 2017, 4030, 4031} {
			s.setClock(slot)
			S := map[string]ref.Report{}
			names := ""
			for _, li := range seq {
				r := alpha[li].mk(keys[dev], ids[dev], slot, capacity)
				names += alpha[li].name + " "
				s.datagram(r.Encode(), alpha[li].name)
				S[string(r.Encode())] = r
				got := s.S.VerifSnapshot().Reports[ids[dev]][slot].PowerOutput
				if want := setValue(S, capacity); got != want {
					s.fail("sequence [%s] on device %d slot %d (edge of the window): published value %d, set rule gives %d", names, ids[dev], slot, got, want)
				}
				ev.Eval(1)
			}
			ev.NonTrivial(fmt.Sprintf("c02|edge|%d|%s", slot, names))
		}
	}
	ev.Exhaustive(fmt.Sprintf("c02: all sequences of length<=%d over {A,A',B,limit,limit+1,negative} (%d)", maxLen, len(seqs)))
	s.crossCheckAPI()
	s.close()
}

type c02Sent struct {
	dev  int
	slot uint32
	b    []byte
}

func TestC02RandomHistories(t *testing.T) {
	ev.Rule("C02(iii): rapid state machine over 2-3 devices x 3 slots: send a report with power from {2,3,limit-1,limit,limit+1,2^63-1,2^63,2^64-1,mid}, send a second valid signature over earlier content, replay any earlier datagram verbatim, all with drawn capacities incl. 0 and the largest non-overflowing one; oracle f(S) per (device,slot) after every step + model comparison of every other slot and device; non-trivial = history with >=2 distinct valid reports for one slot, or a replay, or a value within 1 of the capacity limit or of 2^63; distinct by history")
	rapid.Check(t, func(t *rapid.T) {
		nDev := rapid.IntRange(2, 3).Draw(t, "nDev")
		caps := make([]uint64, nDev)
		for i := range caps {
			caps[i] = drawCapacity(t, fmt.Sprintf("cap%d", i))
		}
		s, ids, keys := c02Fixture(t, caps)
		defer s.cleanup()
		base := rapid.Uint32Range(0, 3000).Draw(t, "baseSlot")
		slots := []uint32{base, base + 1, base + rapid.Uint32Range(2, 400).Draw(t, "far")}
		s.setClock(base + 200)
		sets := map[[2]uint32]map[string]ref.Report{}
		var sent []c02Sent
		nontrivial := false
		var hist []string
		check := func() {
			snap := s.S.VerifSnapshot()
			for d := range ids {
				for _, sl := range slots {
					S := sets[[2]uint32{uint32(d), sl}]
					got := snap.Reports[ids[d]][sl].PowerOutput
					if want := setValue(S, caps[d]); got != want {
						s.fail("device %d slot %d: published %d, set rule gives %d for %d distinct reports", ids[d], sl, got, want, len(S))
					}
				}
			}
		}
		deliver := func(d int, sl uint32, b []byte, what string) {
			key := [2]uint32{uint32(d), sl}
			if sets[key] == nil {
				sets[key] = map[string]ref.Report{}
			}
			r, _ := ref.DecodeReport(b)
			if r.Power >= 2 { // sentinel powers are not valid reports (C01)
				if _, dup := sets[key][string(b)]; dup {
					nontrivial = true
					ev.Label("c02:replay")
				}
				sets[key][string(b)] = r
				if len(sets[key]) >= 2 {
					nontrivial = true
				}
			}
			hist = append(hist, fmt.Sprintf("%s dev%d slot%d power=%d", what, d, sl, r.Power))
			s.datagram(b, what)
			sent = append(sent, c02Sent{d, sl, b})
			ev.Eval(1)
			check()
		}
		t.Repeat(map[string]func(*rapid.T){
			"send": func(t *rapid.T) {
				d := rapid.IntRange(0, nDev-1).Draw(t, "dev")
				sl := rapid.SampledFrom(slots).Draw(t, "slot")
				p := drawPower(t, caps[d], "power")
				lim := limitOf(caps[d])
				if p+1 == lim || p == lim || p == lim+1 || p == math.MaxInt64 || p == 1<<63 || p == math.MaxInt64-1 {
					nontrivial = true
					ev.Label("c02:boundary-power")
				}
				deliver(d, sl, ref.SignedReport(keys[d], ids[d], sl, p).Encode(), "send")
			},
			"resign": func(t *rapid.T) {
				if len(sent) == 0 {
					t.Skip("nothing sent yet")
				}
				x := sent[rapid.IntRange(0, len(sent)-1).Draw(t, "which")]
				r, _ := ref.DecodeReport(x.b)
				r = altSigned(keys[x.dev], r, rapid.Byte().Draw(t, "salt"))
				deliver(x.dev, x.slot, r.Encode(), "resign")
			},
			"replay": func(t *rapid.T) {
				if len(sent) == 0 {
					t.Skip("nothing sent yet")
				}
				x := sent[rapid.IntRange(0, len(sent)-1).Draw(t, "which")]
				deliver(x.dev, x.slot, x.b, "replay")
			},
			"forgedCopy": func(t *rapid.T) {
				// a copy of an earlier datagram with another power value and the old
				// signature: not a report of the device, so it counts for nothing -
				// in particular it is no "second distinct report" that bans the slot
				if len(sent) == 0 {
					t.Skip("nothing sent yet")
				}
				x := sent[rapid.IntRange(0, len(sent)-1).Draw(t, "which")]
				b := append([]byte(nil), x.b...)
				b[8+rapid.IntRange(0, 7).Draw(t, "powerByte")] ^= byte(rapid.IntRange(1, 255).Draw(t, "xor"))
				r, _ := ref.DecodeReport(b)
				hist = append(hist, fmt.Sprintf("forged copy dev%d slot%d power=%d (old signature)", x.dev, x.slot, r.Power))
				s.datagram(b, "forged copy")
				ev.Eval(1)
				ev.Label("c02:forged-copy-of-earlier-report")
				check()
			},
		})
		if nontrivial {
			ev.NonTrivial(fmt.Sprintf("c02|hist|%v|%v", caps, hist))
			ev.Label("c02:nontrivial-history")
			ev.Sample("c02:random-history", map[string]interface{}{"capacities": caps, "history": hist})
		}
		s.crossCheckAPI()
		// what the reports added up to is the same after the log has been replayed -
		// also when the server comes back days later, with the reports far outside
		// the range in which a NEW report would be accepted (but no rotation due)
		later := s.now + rapid.SampledFrom([]uint32{0, 0, 1, 432, 433, 600, 1000}).Draw(t, "downtimeSlots")
		if later >= s.M.Offset+3190 {
			later = s.now
		}
		if later > s.now+432 {
			ev.Label("c02:restart-beyond-acceptance-range")
		}
		s.restart(later)
		check()
		s.crossCheckAPI()
		s.close()
	})
}

func TestC02OrderIndependence(t *testing.T) {
	ev.Rule("C02(ii): metamorphic - a drawn multiset of valid reports (2 devices x 3 slots, boundary powers, alternative signatures, duplicates) is delivered to two fresh servers in two drawn orders; all per-slot values must agree and equal f(S); non-trivial = multiset with a slot that has >=2 distinct reports; distinct by multiset and orders")
	rapid.Check(t, func(t *rapid.T) {
		caps := []uint64{drawCapacity(t, "cap0"), drawCapacity(t, "cap1")}
		n := rapid.IntRange(2, 12).Draw(t, "n")
		type item struct {
			d  int
			sl uint32
			b  []byte
		}
		keys := []ref.Key{keyFor("dev-0"), keyFor("dev-1")}
		ids := []uint32{100, 101}
		var items []item
		sets := map[[2]uint32]map[string]ref.Report{}
		multi := false
		for i := 0; i < n; i++ {
			d := rapid.IntRange(0, 1).Draw(t, "dev")
			sl := uint32(rapid.IntRange(10, 12).Draw(t, "slot"))
			var b []byte
			if len(items) > 0 && rapid.IntRange(0, 3).Draw(t, "dup") == 0 {
				x := items[rapid.IntRange(0, len(items)-1).Draw(t, "which")]
				d, sl, b = x.d, x.sl, x.b
				if rapid.Bool().Draw(t, "resign") {
					r, _ := ref.DecodeReport(b)
					b = altSigned(keys[d], r, 7).Encode()
				}
			} else {
				p := drawPower(t, caps[d], "power")
				if p < 2 {
					p = 2
				}
				b = ref.SignedReport(keys[d], ids[d], sl, p).Encode()
			}
			items = append(items, item{d, sl, b})
			k := [2]uint32{uint32(d), sl}
			if sets[k] == nil {
				sets[k] = map[string]ref.Report{}
			}
			r, _ := ref.DecodeReport(b)
			sets[k][string(b)] = r
			if len(sets[k]) >= 2 {
				multi = true
			}
		}
		perm := rapid.Permutation(items).Draw(t, "order2")
		run := func(order []item) map[[2]uint32]uint64 {
			s, _, _ := c02Fixture(t, caps)
			defer s.cleanup()
			s.setClock(11)
			for _, it := range order {
				s.datagram(it.b, "multiset")
				ev.Eval(1)
			}
			out := map[[2]uint32]uint64{}
			snap := s.S.VerifSnapshot()
			for d := 0; d < 2; d++ {
				for sl := uint32(10); sl <= 12; sl++ {
					out[[2]uint32{uint32(d), sl}] = snap.Reports[ids[d]][sl].PowerOutput
				}
			}
			s.close()
			return out
		}
		a := run(items)
		b := run(perm)
		var ks [][2]uint32
		for k := range a {
			ks = append(ks, k)
		}
		sort.Slice(ks, func(i, j int) bool { return ks[i][0] < ks[j][0] || (ks[i][0] == ks[j][0] && ks[i][1] < ks[j][1]) })
		for _, k := range ks {
			if a[k] != b[k] {
				t.Fatalf("C02: device %d slot %d: value %d in the first order, %d in the second - outcome depends on arrival order", k[0], k[1], a[k], b[k])
			}
			if want := setValue(sets[k], caps[k[0]]); a[k] != want {
				t.Fatalf("C02: device %d slot %d: value %d, set rule gives %d", k[0], k[1], a[k], want)
			}
		}
		if multi {
			key := fmt.Sprintf("c02|multiset|%v|", caps)
			for _, it := range items {
				key += string(it.b)
			}
			for _, it := range perm {
				key += string(it.b[16:24])
			}
			ev.NonTrivial(key)
			ev.Label("c02:multiset-with-equivocation")
		}
		_ = glow.CurrentTimeslot
	})
}
