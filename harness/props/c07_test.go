//go:build test && verif

package props

import (
	"fmt"
	"os"
	"testing"

	"pgregory.net/rapid"

	"github.com/glowlabs-org/gca-backend/glow"
	"github.com/glowlabs-org/gca-backend/server"

	"verif/harness/ev"
	"verif/harness/ref"
	"verif/harness/world"
)

// TestC07ArbitraryKeyBytes - the registered key is 32 bytes chosen by whoever
// holds the temporary key; nothing forces them to be a usable public key.
// Whatever the bytes are, an accepted registration is the one and only one,
// also across restarts.
func TestC07ArbitraryKeyBytes(t *testing.T) {
	ev.Rule("C07(key bytes): the first registration carries arbitrary 32 bytes as GCA key (random, a repeated byte incl. line feed / carriage return / space, all zero, a genuine key with one bit flipped, a genuine key whose last 1-3 bytes are zero or white space, a genuine key), validly signed by the temporary key; then 1-2 restarts, a second registration (valid key, signed by the temporary key) and an equipment authorization signed by that second key. Oracle, whichever way the server treats the bytes: if the first registration answered 200 the server is registered with exactly those bytes after every restart, the second registration is refused and the second key has no authority; if it was refused the server stays unregistered and the second registration is the one that succeeds. Non-trivial = first key is not a genuine public key; distinct by key bytes")
	server.VerifSetStepping(true)
	rapid.Check(t, func(t *rapid.T) {
		ev.Eval(1)
		glow.SetCurrentTimeslot(0)
		temp := keyFor("temp")
		dir := world.NewServerDir(temp.Pub)
		defer os.RemoveAll(dir)
		defer world.StopAllLeaked()
		S, err := world.StartServer(dir)
		if err != nil {
			t.Fatalf("C07: fresh server does not start: %v", err)
		}
		defer func() { S.Close() }()
		var k [32]byte
		class := rapid.SampledFrom([]string{"random", "repeated", "flipped", "genuine", "blank", "tail"}).Draw(t, "keyClass")
		switch class {
		case "blank":
			// 32 zero bytes: the value a key variable has before anything is registered
		case "tail":
			// a genuine key whose last bytes are what text handling strips or pads
			k = keyFor("c07-first").Pub
			b := rapid.SampledFrom([]byte{0x00, 0x0a, 0x0d, 0x20, 0x09}).Draw(t, "tailByte")
			for i, n := 0, rapid.IntRange(1, 3).Draw(t, "tailLen"); i < n; i++ {
				k[31-i] = b
			}
		case "random":
			copy(k[:], rapid.SliceOfN(rapid.Byte(), 32, 32).Draw(t, "keyBytes"))
		case "repeated":
			b := rapid.SampledFrom([]byte{0x01, 0x02, 0x03, 0x0a, 0x0d, 0x20, 0x7f, 0x80, 0xfe, 0xff}).Draw(t, "keyByte")
			for i := range k {
				k[i] = b
			}
		case "flipped":
			k = keyFor("c07-first").Pub
			pos := rapid.IntRange(0, 255).Draw(t, "keyBit")
			k[pos/8] ^= 1 << (uint(pos) % 8)
		default:
			k = keyFor("c07-first").Pub
		}
		hist := []string{fmt.Sprintf("register(%s key %x)", class, k)}
		fail := func(format string, a ...interface{}) {
			t.Fatalf("C07: "+fmt.Sprintf(format, a...)+"; history %v", hist)
		}
		st, body, err := S.Register(k, temp)
		if err != nil {
			fail("registration request failed: %v (panics %+v)", err, server.VerifPanics())
		}
		accepted := st == 200
		hist = append(hist, fmt.Sprintf("-> %d %s", st, body))
		check := func(where string) {
			snap := S.S.VerifSnapshot()
			if snap.GCAAvailable != accepted {
				fail("%s: server registered=%v although the registration answered %d", where, snap.GCAAvailable, st)
			}
			if accepted && [32]byte(snap.GCAKey) != k {
				fail("%s: registered key is %x, the accepted registration carried %x", where, snap.GCAKey, k)
			}
			if ps := server.VerifPanics(); len(ps) > 0 {
				fail("%s: server goroutine panicked: %s: %s", where, ps[0].Where, ps[0].Value)
			}
		}
		check("after the registration")
		for i, n := 0, rapid.IntRange(1, 2).Draw(t, "restarts"); i < n; i++ {
			if err := S.Close(); err != nil {
				fail("close: %v", err)
			}
			hist = append(hist, "restart")
			S, err = world.StartServer(dir)
			if err != nil {
				fail("server does not start after a registration that answered %d: %v", st, err)
			}
			check(fmt.Sprintf("after restart %d", i+1))
		}
		second := keyFor("c07-second")
		st2, body2, err := S.Register(second.Pub, temp)
		if err != nil {
			fail("second registration request failed: %v", err)
		}
		hist = append(hist, fmt.Sprintf("register(second) -> %d %s", st2, body2))
		if accepted && st2 == 200 {
			fail("a second registration was accepted after the first one had answered 200 (the GCA key was replaced)")
		}
		if !accepted && st2 != 200 {
			fail("the first registration was refused (%d) and so was the valid one that followed (%d %s)", st, st2, body2)
		}
		a := ref.Auth{ShortID: 5, PublicKey: keyFor("c07-dev").Pub, Capacity: 1000}
		a.Sig = ref.Sign(second, a.SigningBytes())
		st3, _, err := S.Authorize(a)
		if err != nil {
			fail("authorization request failed: %v", err)
		}
		hist = append(hist, fmt.Sprintf("authorize(by second key) -> %d", st3))
		if accepted {
			if st3 == 200 || len(S.S.VerifSnapshot().Equipment) != 0 {
				fail("an equipment authorization signed by a key that is not the registered GCA key was honoured")
			}
			check("at the end")
		} else if st3 != 200 {
			fail("the second key is the registered GCA but its equipment authorization was refused (%d)", st3)
		}
		if class != "genuine" {
			ev.NonTrivial(fmt.Sprintf("c07|key|%x", k))
			ev.Label("c07:first-key-" + class)
			if accepted {
				ev.Label("c07:arbitrary-key-accepted")
			} else {
				ev.Label("c07:arbitrary-key-refused")
			}
			ev.Sample("c07:arbitrary-key", map[string]interface{}{"class": class, "first_status": st, "second_status": st2})
		}
	})
}
