//go:build test && verif

package props

// C16 - energy readings become report values by fixed rules, for every file
// content. Files are built row by row from rows of known class, so the
// expected record list is known by construction (no reference CSV parser is
// needed for well-formed files). For files that contain malformed rows the
// oracle is weaker, as the property says: no crash, every returned record
// stems from a well-formed row, and the well-formed rows before the first
// malformed one are all returned.

import (
	"fmt"
	"math"
	"os"
	"strconv"
	"strings"
	"testing"

	"github.com/glowlabs-org/gca-backend/client"
	"github.com/glowlabs-org/gca-backend/glow"
	"pgregory.net/rapid"

	"verif/harness/ev"
	"verif/harness/ref"
	"verif/harness/world"
)

type c16Row struct {
	text       string
	wellFormed bool // two columns, usable timestamp
	skipped    bool // two columns, unusable timestamp: must be skipped without ending the parse
	malformed  bool // wrong column count / stray quote
	slot       uint32
	class      string // sentinel2 / sentinel3 / scaled / nocrash
	x          float64
	optional   bool // may yield a record (by the same rules) but need not
}

// expected value for a scaled reading; ok=false if outside the checked domain.
func c16Scaled(x, m, d float64) (uint64, bool) {
	if d == 0 {
		return 0, false
	}
	v := m * x / d // "first multiplied, then divided"
	if math.IsNaN(v) || math.IsInf(v, 0) {
		return 0, false
	}
	tr := math.Trunc(v)
	if tr >= 9.2e18 || tr <= -9.2e18 {
		return 0, false
	}
	return uint64(int64(tr)), true
}

func fmtFloat(t *rapid.T, x float64) string {
	f := rapid.SampledFrom([]byte{'f', 'e', 'g', 'E', 'G'}).Draw(t, "fmt")
	s := strconv.FormatFloat(x, f, -1, 64)
	if x > 0 && rapid.IntRange(0, 9).Draw(t, "plus") == 0 {
		s = "+" + s
	}
	return s
}

func drawReading(t *rapid.T) float64 {
	switch rapid.IntRange(0, 7).Draw(t, "readingClass") {
	case 0:
		return rapid.SampledFrom([]float64{24, -24, math.Nextafter(24, 0), math.Nextafter(-24, 0), math.Nextafter(24, 100), math.Nextafter(-24, -100), 0, 23.5, -23.5, 25, -25}).Draw(t, "boundary")
	case 1:
		return rapid.Float64Range(-30, 30).Draw(t, "small")
	case 2:
		return rapid.Float64Range(-5e6, 5e6).Draw(t, "typical")
	case 3:
		return float64(rapid.Int64Range(-3000000, 3000000).Draw(t, "integer"))
	case 4:
		return rapid.SampledFrom([]float64{1e15, -1e15, 9e18, -9e18, 1e300, -1e300, 4294967296, -4294967296, 2147483648, -2147483649}).Draw(t, "huge")
	default:
		return rapid.Float64Range(24, 2e9).Draw(t, "positive") * float64(1-2*rapid.IntRange(0, 1).Draw(t, "sign"))
	}
}

func drawRow(t *rapid.T, g int64, allowMalformed bool) c16Row {
	kinds := []string{"good", "good", "good", "good", "sentinel3", "beforeGenesis", "badTimestamp", "quoted"}
	if allowMalformed {
		kinds = append(kinds, "oneColumn", "threeColumns", "strayQuote", "nanInf")
	}
	kind := rapid.SampledFrom(kinds).Draw(t, "rowKind")
	k := rapid.Int64Range(0, 5000).Draw(t, "slotK")
	if rapid.IntRange(0, 7).Draw(t, "farSlot") == 0 {
		// far in the future: around the timestamps 2^31 (January 2038) and 2^32
		// (February 2106), and the largest slot a 32-bit second count can reach
		k = rapid.SampledFrom([]int64{(1<<31 - g) / 300, (1<<31-g)/300 - 1, (1<<31-g)/300 + 1, (1<<32 - g) / 300, (1<<32-g)/300 + 1, 14316556, 14316557}).Draw(t, "farK")
	}
	ts := g + 300*k + rapid.Int64Range(0, 299).Draw(t, "within")
	if ts-g > math.MaxUint32 {
		ts = g + math.MaxUint32 // the last second of the domain (it lies inside slot 14316557)
	}
	switch kind {
	case "good", "quoted":
		x := drawReading(t)
		lit := fmtFloat(t, x)
		row := c16Row{wellFormed: true, slot: uint32(k), x: x}
		if kind == "quoted" {
			row.text = fmt.Sprintf("\"%d\",\"%s\"", ts, lit)
		} else {
			row.text = fmt.Sprintf("%d,%s", ts, lit)
		}
		if x > -24 && x < 24 {
			row.class = "sentinel2"
		} else {
			row.class = "scaled"
		}
		return row
	case "sentinel3":
		junk := rapid.SampledFrom([]string{"", "abc", "12a", "1x", "--5", "1e", "0x", " 100", "100 ", "1__0", "_1", "error: sensor", "1.2.3", "٣"}).Draw(t, "junk")
		if _, err := strconv.ParseFloat(junk, 64); err == nil {
			panic("harness: junk literal parses as a float: " + junk)
		}
		return c16Row{text: fmt.Sprintf("%d,%s", ts, junk), wellFormed: true, slot: uint32(k), class: "sentinel3"}
	case "beforeGenesis":
		return c16Row{text: fmt.Sprintf("%d,%s", g-rapid.Int64Range(1, 1e9).Draw(t, "before"), "500"), skipped: true}
	case "badTimestamp":
		junk := rapid.SampledFrom([]string{"", "abc", "12.5", "1e9", "0x10", "99999999999999999999", "-", " 170"}).Draw(t, "tsJunk")
		return c16Row{text: fmt.Sprintf("%s,%s", junk, "500"), skipped: true}
	case "oneColumn":
		if rapid.Bool().Draw(t, "validTs") {
			return c16Row{text: fmt.Sprintf("%d", ts), malformed: true}
		}
		return c16Row{text: "lonely", malformed: true}
	case "threeColumns":
		// A row with an extra column is not well-formed (nothing is required of
		// it), but if the reader takes it, it must take it by the same rules.
		return c16Row{text: fmt.Sprintf("%d,%s,extra", ts, "100"), malformed: true, slot: uint32(k), x: 100, class: "scaled", optional: true}
	case "strayQuote":
		return c16Row{text: fmt.Sprintf("%d,10\"0", ts), malformed: true}
	default: // nanInf: parses, but outside the checked domain
		lit := rapid.SampledFrom([]string{"NaN", "Inf", "-Inf", "+Inf", "1e999", "-1e999", "infinity"}).Draw(t, "nanLit")
		return c16Row{text: fmt.Sprintf("%d,%s", ts, lit), wellFormed: true, slot: uint32(k), class: "nocrash"}
	}
}

type c16Calib struct {
	text     *string
	m, d     float64
	valid    bool
	checkVal bool
	desc     string
}

func drawCalib(t *rapid.T) c16Calib {
	dm, dd := client.VerifConsts().DefaultMultiplier, client.VerifConsts().DefaultDivider
	switch kind := rapid.SampledFrom([]string{"absent", "valid", "valid", "negative", "malformed", "zeroDivider"}).Draw(t, "calib"); kind {
	case "absent":
		return c16Calib{m: dm, d: dd, valid: true, checkVal: true, desc: "absent"}
	case "valid", "negative":
		// incl. values that 32-bit floats cannot hold (decimal fractions, integers above 2^24) and arbitrary ones
		m := rapid.SampledFrom([]float64{1, 2, 1000, 2000, 0.5, 1500.25, 3, 0.7, 1.1, 16777217, 0.001, 123456789.125,
			rapid.Float64Range(1e-6, 1e9).Draw(t, "anyMult")}).Draw(t, "mult")
		if kind == "negative" {
			m = -m
		}
		d := rapid.SampledFrom([]float64{1, 1000, 3, 0.25, 7, 0.3, 1.1, 16777217, rapid.Float64Range(1e-6, 1e9).Draw(t, "anyDiv")}).Draw(t, "div")
		s := strconv.FormatFloat(m, 'g', -1, 64) + "\n" + strconv.FormatFloat(d, 'g', -1, 64)
		switch rapid.IntRange(0, 3).Draw(t, "ending") {
		case 0:
			s += "\n"
		case 1:
			s += "\n# a comment line that must be ignored\n"
		case 2:
			s = strings.ReplaceAll(s, "\n", "\r\n") + "\r\n"
		}
		return c16Calib{text: &s, m: m, d: d, valid: true, checkVal: true, desc: fmt.Sprintf("%q", s)}
	case "malformed":
		// wrong line structure, too: two numbers on one line, a blank line before or between the values (padding around a number is NOT in the set: tolerating it would still read line 1 and line 2 as written)
		s := rapid.SampledFrom([]string{"", "1000", "1000\n", "abc\n1000\n", "1000\nxyz\n", "\n\n", "1000,1000\n",
			"1000 7\n500\n", "1000 500\n", "1000 500", "\n1000\n500\n", "1000\n\n500\n", "1000\t500\n"}).Draw(t, "bad")
		return c16Calib{text: &s, valid: false, desc: fmt.Sprintf("malformed %q", s)}
	default:
		s := "1000\n0\n"
		return c16Calib{text: &s, m: 1000, d: 0, valid: true, checkVal: false, desc: "zero divider"}
	}
}

func c16Client(t *rapid.T, cal c16Calib, energy string, sink *world.UDPSink) (*client.Client, string, error) {
	client.VerifSetStepping(true)
	srvKey := keyFor("c16-srv")
	port := uint16(9)
	if sink != nil {
		port = sink.Port
	}
	cfg := world.ClientCfg{Key: keyFor("c16-dev"), GCA: keyFor("gca").Pub, ShortID: 42, HistoryOffset: 0, CT: cal.text, Energy: energy,
		Servers: map[[32]byte]ref.ClientServer{srvKey.Pub: {Location: "127.0.0.1", HttpPort: 1, TcpPort: 1, UdpPort: port}}}
	dir := world.NewClientDir(cfg)
	c, err := world.StartClient(dir)
	return c, dir, err
}

func TestC16EnergyFile(t *testing.T) {
	ev.Rule("C16: rapid draws a calibration (absent, valid incl. negative multiplier / CRLF / trailing lines, malformed, zero divider) and builds CSV contents row by row from rows of known class (header variants or none; readings as 'f'/'e'/'g' literals incl. +-24 boundaries, negative, huge, scientific; unparseable values; timestamps before genesis / non-numeric; quoted fields; and - in half of the cases - malformed rows: single column, three columns, stray quote, NaN/Inf); oracle: for files without malformed rows the exact record list (slot = floor((ts-genesis)/300), value 2 / 3 / two's complement of trunc(m*x/d)); with malformed rows: no panic, every returned record stems from a well-formed row and the well-formed rows before the first malformed row are all returned; calibration accessor equals (line 1, line 2); malformed calibration => NewClient error; non-trivial = file with a row at a sentinel boundary, a negative or scaled reading, or a malformed row; distinct by (calibration, file content)")
	g := int64(glow.GenesisTime)
	rapid.Check(t, func(t *rapid.T) {
		ev.Eval(1)
		cal := drawCalib(t)
		allowMal := rapid.Bool().Draw(t, "allowMalformed")
		header := rapid.SampledFrom([]string{"timestamp,energy (mWh)", "timestamp,energy", "", "", "\"timestamp\",\"energy\"", "time,energy"}).Draw(t, "header")
		var rows []c16Row
		for i, n := 0, rapid.IntRange(0, 25).Draw(t, "rows"); i < n; i++ {
			rows = append(rows, drawRow(t, g, allowMal))
		}
		var sb strings.Builder
		if header != "" {
			sb.WriteString(header + "\n")
		}
		for i, r := range rows {
			sb.WriteString(r.text)
			if i < len(rows)-1 || rapid.Bool().Draw(t, "finalNewline") {
				sb.WriteString("\n")
			}
		}
		content := sb.String()
		lastCase(map[string]interface{}{"calibration": cal.desc, "energy_file": content})
		journal(map[string]interface{}{"calibration": cal.desc, "energy_file": content})
		c, dir, err := c16Client(t, cal, content, nil)
		defer os.RemoveAll(dir)
		if !cal.valid {
			if err == nil {
				world.CloseClient(c)
				t.Fatalf("C16: client started with calibration %s, it must be refused", cal.desc)
			}
			if strings.HasPrefix(err.Error(), "panic:") {
				t.Fatalf("C16: NewClient panicked on calibration %s: %v", cal.desc, err)
			}
			ev.Label("c16:calibration-refused")
			ev.NonTrivial("c16|badcal|" + cal.desc)
			return
		}
		if err != nil {
			t.Fatalf("C16: NewClient failed on calibration %s and file %q: %v", cal.desc, content, err)
		}
		defer world.StopAllLeakedClients()
		defer world.CloseClient(c)
		st := c.VerifState()
		if !ref.FloatBitsEqual(st.Multiplier, cal.m) || !ref.FloatBitsEqual(st.Divider, cal.d) {
			t.Fatalf("C16: calibration %s read as multiplier %v divider %v, written %v / %v", cal.desc, st.Multiplier, st.Divider, cal.m, cal.d)
		}
		var recs []client.EnergyRecord
		func() {
			defer func() {
				if r := recover(); r != nil {
					t.Fatalf("C16: reading the energy file panicked: %v\nfile:\n%s", r, content)
				}
			}()
			recs, err = c.VerifReadEnergyFile()
		}()
		if ps := client.VerifPanics(); len(ps) > 0 {
			t.Fatalf("C16: client goroutine panicked (%s: %s) on file:\n%s", ps[0].Where, ps[0].Value, content)
		}
		if err != nil {
			t.Fatalf("C16: energy file refused: %v", err)
		}
		// expected records
		type exp struct {
			slot    uint32
			val     uint64
			checked bool
		}
		var want, allowed []exp
		firstMal := -1
		nontrivial := false
		for i, r := range rows {
			if r.malformed && firstMal < 0 {
				firstMal = i
				nontrivial = true
			}
			if r.optional {
				if v, ok := c16Scaled(r.x, cal.m, cal.d); ok && cal.checkVal {
					allowed = append(allowed, exp{r.slot, v, true})
				} else {
					allowed = append(allowed, exp{r.slot, 0, false})
				}
			}
			if !r.wellFormed {
				continue
			}
			e := exp{slot: r.slot, checked: true}
			switch r.class {
			case "sentinel2":
				e.val = 2
				nontrivial = nontrivial || math.Abs(r.x) > 23
			case "sentinel3":
				e.val = 3
			case "scaled":
				v, ok := c16Scaled(r.x, cal.m, cal.d)
				e.val, e.checked = v, ok && cal.checkVal
				nontrivial = true
			default:
				e.checked = false
			}
			want = append(want, exp{e.slot, e.val, e.checked})
			_ = i
		}
		// a header with a different column count changes what the reader accepts
		headerCols := 2
		hasMal := firstMal >= 0
		if !hasMal {
			if len(recs) != len(want) {
				t.Fatalf("C16: %d records returned, %d well-formed rows at/after genesis; file:\n%s", len(recs), len(want), content)
			}
			for i := range want {
				if recs[i].Timeslot != want[i].slot {
					t.Fatalf("C16: record %d has timeslot %d, row says %d; file:\n%s", i, recs[i].Timeslot, want[i].slot, content)
				}
				if want[i].checked && recs[i].Energy != want[i].val {
					t.Fatalf("C16: record %d (slot %d) has value %d, the rules give %d (calibration %s); file:\n%s", i, want[i].slot, recs[i].Energy, want[i].val, cal.desc, content)
				}
			}
		} else {
			// prefix: well-formed rows before the first malformed row
			prefix := 0
			for i := 0; i < firstMal; i++ {
				if rows[i].wellFormed {
					prefix++
				}
			}
			if len(recs) < prefix && headerCols == 2 {
				t.Fatalf("C16: only %d records returned although %d well-formed rows precede the first malformed row; file:\n%s", len(recs), prefix, content)
			}
			for i, r := range recs {
				found := false
				for _, w := range append(append([]exp{}, want...), allowed...) {
					if w.slot == r.Timeslot && (!w.checked || w.val == r.Energy) {
						found = true
						break
					}
				}
				if !found {
					t.Fatalf("C16: record %d (slot %d value %d) does not stem from any well-formed row; file:\n%s", i, r.Timeslot, r.Energy, content)
				}
			}
			ev.Label("c16:file-with-malformed-row")
		}
		if nontrivial {
			ev.NonTrivial("c16|" + cal.desc + "|" + content)
			ev.Label("c16:nontrivial")
			if len(content) < 600 {
				ev.Sample("c16:file", map[string]interface{}{"calibration": cal.desc, "file": content, "records": len(recs)})
			}
		}
	})
}

// Wire check: after a stepped tick the datagrams at a UDP sink carry exactly
// the (slot, value) pairs of the rows newer than the last reported slot.
func TestC16Wire(t *testing.T) {
	ev.Rule("C16(wire): a client is started on an initial file, rows for later slots are appended, one reporting tick is granted; the datagrams received by a UDP sink must decode to exactly the new rows' (slot, rule value) pairs, signed by the device key")
	g := int64(glow.GenesisTime)
	rapid.Check(t, func(t *rapid.T) {
		ev.Eval(1)
		cal := c16Calib{m: client.VerifConsts().DefaultMultiplier, d: client.VerifConsts().DefaultDivider, valid: true, checkVal: true, desc: "absent"}
		if rapid.Bool().Draw(t, "negCal") {
			s := "-2000\n1000\n"
			cal = c16Calib{text: &s, m: -2000, d: 1000, valid: true, checkVal: true, desc: s}
		}
		sink := world.NewUDPSink()
		defer sink.Close()
		n0 := rapid.IntRange(0, 5).Draw(t, "initialRows")
		n1 := rapid.IntRange(1, 8).Draw(t, "newRows")
		var sb strings.Builder
		sb.WriteString("timestamp,energy (mWh)\n")
		type pair struct {
			slot uint32
			val  uint64
		}
		var want []pair
		for i := 0; i < n0+n1; i++ {
			var x float64
			switch rapid.IntRange(0, 3).Draw(t, "xClass") {
			case 0:
				x = rapid.SampledFrom([]float64{24, -24, math.Nextafter(24, 0), math.Nextafter(-24, 0), 0, 1e6, -1e6}).Draw(t, "xb")
			case 1:
				x = float64(rapid.Int64Range(-1000000, 1000000).Draw(t, "xi"))
			default:
				x = rapid.Float64Range(-1e6, 1e6).Draw(t, "xf")
			}
			ts := g + 300*int64(i+1) + rapid.Int64Range(0, 299).Draw(t, "within")
			sb.WriteString(fmt.Sprintf("%d,%s\n", ts, strconv.FormatFloat(x, 'f', -1, 64)))
			var v uint64
			if x > -24 && x < 24 {
				v = 2
			} else {
				sv, ok := c16Scaled(x, cal.m, cal.d)
				if !ok {
					t.Fatalf("harness: scaled value outside the domain")
				}
				v = sv
			}
			if i >= n0 {
				want = append(want, pair{uint32(i + 1), v})
			}
			if i == n0-1 {
				sb.WriteString("#SPLIT#")
			}
		}
		full := sb.String()
		initial := "timestamp,energy (mWh)\n"
		if idx := strings.Index(full, "#SPLIT#"); idx >= 0 {
			initial = full[:idx]
			full = strings.Replace(full, "#SPLIT#", "", 1)
		}
		c, dir, err := c16Client(t, cal, initial, sink)
		defer os.RemoveAll(dir)
		if err != nil {
			t.Fatalf("C16: NewClient: %v", err)
		}
		defer world.CloseClient(c)
		world.WriteEnergy(dir, full)
		if !world.Step(c, "tick") {
			t.Fatalf("C16: reporting loop did not take the granted tick (panics: %+v)", client.VerifPanics())
		}
		if ps := client.VerifPanics(); len(ps) > 0 {
			t.Fatalf("C16: client panicked: %+v", ps[0])
		}
		// rows whose scaled value left the int32 domain were forced to 2 above only in the expectation; skip those cases
		sink.WaitCount(len(want), 2e9)
		sink.Settle(3e6)
		got := sink.All()
		if len(got) != len(want) {
			t.Fatalf("C16: %d datagrams emitted for %d new rows; file:\n%s", len(got), len(want), full)
		}
		for i, b := range got {
			r, err := ref.DecodeReport(b)
			if err != nil {
				t.Fatalf("C16: datagram %d has %d bytes", i, len(b))
			}
			if r.ShortID != 42 || r.Timeslot != want[i].slot {
				t.Fatalf("C16: datagram %d is for id %d slot %d, expected id 42 slot %d", i, r.ShortID, r.Timeslot, want[i].slot)
			}
			if !ref.Verify(keyFor("c16-dev").Pub, r.SigningBytes(), r.Sig) {
				t.Fatalf("C16: datagram %d is not signed by the device key", i)
			}
			if r.Power != want[i].val {
				t.Fatalf("C16: datagram %d carries value %d, the rules give %d; file:\n%s", i, r.Power, want[i].val, full)
			}
		}
		ev.NonTrivial("c16|wire|" + cal.desc + "|" + full)
		ev.Label("c16:wire-case")
	})
}
