//go:build test && verif

package props

// sess couples one real server with the reference model. Every operation is
// applied to both; after every operation the server's state (snapshot
// accessor) is compared with the model, and crossCheckAPI compares the public
// surface (HTTP endpoints, TCP sync, data files) with the same model.

import (
	"bytes"
	"encoding/hex"
	"encoding/json"
	"fmt"
	"os"
	"path/filepath"
	"sort"
	"strings"

	"github.com/glowlabs-org/gca-backend/glow"
	"github.com/glowlabs-org/gca-backend/server"

	"verif/harness/ref"
	"verif/harness/world"
)

type TB interface {
	Fatalf(format string, args ...interface{})
	Logf(format string, args ...interface{})
	Helper()
}

type sess struct {
	t    TB
	prop string
	S    *world.Server
	M    *ref.Model
	dir  string
	temp ref.Key
	gca  ref.Key
	now  uint32
	hist []string

	lastImpact map[uint32]*[4032]float64
	firstSeen  map[uint32][]byte // archived week -> first JSON-independent canonical form served
	reportsLen int64
	closed     bool
	// options
	skipImpactCheck bool
	light           bool // skip the per-datagram state comparison (bulk traffic); endBulk() compares once
}

func newSess(t TB, prop string, temp ref.Key, now uint32) *sess {
	s := &sess{t: t, prop: prop, temp: temp, M: ref.NewModel(temp.Pub), firstSeen: map[uint32][]byte{}}
	s.dir = world.NewServerDir(temp.Pub)
	s.now = now
	glow.SetCurrentTimeslot(now)
	return s
}

func (s *sess) logf(format string, a ...interface{}) {
	s.hist = append(s.hist, fmt.Sprintf(format, a...))
}

func (s *sess) history() string {
	h := s.hist
	if len(h) > 60 {
		h = append([]string{fmt.Sprintf("... (%d earlier steps)", len(h)-60)}, h[len(h)-60:]...)
	}
	return strings.Join(h, "\n  ")
}

func (s *sess) fail(format string, a ...interface{}) {
	s.t.Helper()
	msg := fmt.Sprintf(format, a...)
	lastCase(map[string]interface{}{"property": s.prop, "failure": msg, "history": s.hist})
	s.t.Fatalf("%s: %s\nhistory:\n  %s", s.prop, msg, s.history())
}

func (s *sess) checkPanics(where string) {
	s.t.Helper()
	if ps := server.VerifPanics(); len(ps) > 0 {
		s.fail("server goroutine panicked during %s: %s: %s\n%s", where, ps[0].Where, ps[0].Value, trimStack(ps[0].Stack))
	}
}

func trimStack(st string) string {
	lines := strings.Split(st, "\n")
	var out []string
	for _, l := range lines {
		if strings.Contains(l, "/repo/") || strings.Contains(l, "gca-backend/") {
			out = append(out, strings.TrimSpace(l))
		}
	}
	if len(out) > 14 {
		out = out[:14]
	}
	return strings.Join(out, "\n")
}

// start launches the server on the session directory. The model follows the
// catch-up rotations the server performs (each must be a valid rotation).
func (s *sess) start() {
	s.t.Helper()
	s.logf("start(now=%d)", s.now)
	var pre *server.VerifSnap
	srv, err := world.StartServer(s.dir)
	if err != nil {
		s.fail("server does not start: %v", err)
	}
	s.S = srv
	s.closed = false
	s.checkPanics("start")
	snap := s.S.VerifSnapshot()
	_ = pre
	// catch-up rotations: the window may only move in whole weeks, and every
	// move must archive what the model archives.
	for snap.Offset != s.M.Offset {
		if snap.Offset < s.M.Offset || (snap.Offset-s.M.Offset)%ref.WeekSlots != 0 {
			s.fail("after start the window offset is %d, model %d", snap.Offset, s.M.Offset)
		}
		s.modelRotate(nil)
	}
	if int64(s.now)-int64(snap.Offset) >= 4000 {
		s.fail("after start now-offset = %d, start-up must catch up to within 4000 slots", int64(s.now)-int64(snap.Offset))
	}
	s.lastImpact = nil
	s.compare(snap, "start")
	if fi, err := os.Stat(filepath.Join(s.dir, "equipment-reports.dat")); err == nil {
		s.reportsLen = fi.Size()
	}
}

func (s *sess) close() {
	s.t.Helper()
	if s.S == nil || s.closed {
		return
	}
	s.logf("close")
	// A stepped rotation loop runs its body once more when the stop signal
	// releases it; park the clock so that this cannot rotate the window.
	glow.SetCurrentTimeslot(s.M.Offset)
	err := s.S.Close()
	glow.SetCurrentTimeslot(s.now)
	s.closed = true
	if err != nil {
		if strings.HasPrefix(err.Error(), "panic:") || strings.HasPrefix(err.Error(), "timeout:") {
			s.fail("shutdown failed: %v", err)
		}
	}
	s.checkPanics("close")
}

// cleanup is deferred by every case.
func (s *sess) cleanup() {
	// park the clock so that no rotation loop released by a stop signal can
	// rotate; close properly when the server is not wedged (an abandoned
	// server could otherwise act after its directory is gone)
	glow.SetCurrentTimeslot(0)
	if s.S != nil && !s.closed {
		if a, b := s.S.S.VerifTryLocks(); a && b {
			s.S.Close()
		} else {
			s.S.Abandon()
		}
	}
	world.StopAllLeaked()
	server.VerifClearCallbacks()
	server.VerifPanics()
	os.RemoveAll(s.dir)
	glow.SetCurrentTimeslot(0)
}

func (s *sess) restart(now uint32) {
	s.t.Helper()
	// the clock is moved only after the old instance is gone, so that the
	// rotation loop of the old instance cannot act on the new clock value
	s.close()
	// a rotation may have happened while stopping (the loop body runs once more
	// when released by the stop signal); the model follows in start().
	s.now = now
	glow.SetCurrentTimeslot(now)
	s.start()
}

func (s *sess) setClock(now uint32) {
	s.logf("clock(%d) [offset %d]", now, s.M.Offset)
	s.now = now
	glow.SetCurrentTimeslot(now)
}

func (s *sess) register(gca ref.Key, signer ref.Key, expect bool) {
	s.t.Helper()
	s.logf("register(gca=%x.. signer=%x..)", gca.Pub[:4], signer.Pub[:4])
	st, body, err := s.S.Register(gca.Pub, signer)
	if err != nil {
		s.fail("register request failed: %v", err)
	}
	want := !s.M.Registered && signer.Pub == s.M.Temp
	if want != expect {
		panic("harness: inconsistent expectation")
	}
	if want {
		if st != 200 {
			s.fail("valid first registration refused: %d %s", st, body)
		}
		s.M.Registered = true
		s.M.GCA = gca.Pub
		s.gca = gca
	} else if st == 200 {
		s.fail("registration accepted although it must be refused (registered=%v)", s.M.Registered)
	}
	s.checkPanics("register")
	s.compare(s.S.VerifSnapshot(), "register")
}

// authorize posts an authorization; validSig tells whether its signature is by
// the registered GCA key over the reference signing bytes.
func (s *sess) authorize(a ref.Auth, what string) ref.AuthOutcome {
	s.t.Helper()
	s.logf("authorize(%s id=%d key=%x.. cap=%d lat=%v lon=%v)", what, a.ShortID, a.PublicKey[:4], a.Capacity, a.Latitude, a.Longitude)
	valid := s.M.Registered && ref.Verify(s.M.GCA, a.SigningBytes(), a.Sig)
	st, body, err := s.S.Authorize(a)
	if err != nil {
		s.checkPanics("authorize")
		s.fail("authorize request failed: %v", err)
	}
	s.checkPanics("authorize")
	out := ref.AuthOutcome(-1)
	if !valid {
		if st == 200 {
			s.fail("authorization without a valid GCA signature was accepted")
		}
	} else {
		out = s.M.Authorize(a)
		switch out {
		case ref.AuthNew, ref.AuthDuplicate:
			if st != 200 {
				s.fail("valid authorization (%v) refused: %d %s", out, st, body)
			}
		case ref.AuthConflict, ref.AuthRefusedBanned:
			if st == 200 {
				s.fail("conflicting/banned authorization answered 200")
			}
		}
	}
	s.compare(s.S.VerifSnapshot(), "authorize")
	return out
}

// datagram delivers bytes through the UDP socket and checks the effect against
// the model. It returns the verdict.
func (s *sess) datagram(b []byte, what string) ref.Verdict {
	s.t.Helper()
	v := s.M.Judge(b, s.now, ref.Verify)
	eff, logged := ref.EffNone, false
	if v.Accept {
		eff, logged = s.M.Apply(v.Report)
	}
	s.logf("udp(%s len=%d id=%d slot=%d power=%d) -> accept=%v %s eff=%d [now=%d off=%d]", what, len(b), v.Report.ShortID, v.Report.Timeslot, v.Report.Power, v.Accept, v.Reason, eff, s.now, s.M.Offset)
	if err := s.S.SendUDP(b); err != nil {
		s.checkPanics("datagram")
		s.fail("datagram not processed: %v", err)
	}
	s.checkPanics("datagram")
	if s.light {
		if logged {
			s.reportsLen += 80
		}
		return v
	}
	snap := s.S.VerifSnapshot()
	s.compare(snap, "datagram")
	// persisted report log
	fi, err := os.Stat(filepath.Join(s.dir, "equipment-reports.dat"))
	if err != nil {
		s.fail("report log missing: %v", err)
	}
	wantLen := s.reportsLen
	if logged {
		wantLen += 80
	}
	if fi.Size() != wantLen {
		s.fail("persisted report log has %d bytes after the datagram, expected %d (logged=%v accept=%v reason=%q)", fi.Size(), wantLen, logged, v.Accept, v.Reason)
	}
	if logged {
		f, _ := os.ReadFile(filepath.Join(s.dir, "equipment-reports.dat"))
		if !bytes.Equal(f[len(f)-80:], b[:80]) {
			s.fail("persisted report log does not end with the accepted datagram")
		}
	}
	s.reportsLen = fi.Size()
	return v
}

// endBulk ends light mode: one full comparison and the report-log length.
func (s *sess) endBulk() {
	s.t.Helper()
	s.light = false
	s.compare(s.S.VerifSnapshot(), "bulk traffic")
	fi, err := os.Stat(filepath.Join(s.dir, "equipment-reports.dat"))
	if err != nil || fi.Size() != s.reportsLen {
		s.fail("persisted report log has %d bytes after bulk traffic, expected %d", fi.Size(), s.reportsLen)
	}
}

// modelRotate rotates the model once and remembers the impact rates the
// archived week must carry (pre = snapshot before the rotation, may be nil
// when the rotation happened during start-up, in which case the live impact
// rates were all zero because they are not persisted).
func (s *sess) modelRotate(pre *server.VerifSnap) {
	ids := s.M.DeviceIDs()
	keyOf := map[uint32][32]byte{}
	for _, id := range ids {
		keyOf[id] = s.M.Devices[id].PublicKey
	}
	s.M.Rotate()
	w := &s.M.Archive[len(s.M.Archive)-1]
	for _, id := range ids {
		var r [ref.WeekSlots]float64
		if pre != nil && pre.Impact[id] != nil {
			copy(r[:], pre.Impact[id][:ref.WeekSlots])
		}
		w.Impact[keyOf[id]] = &r
	}
	if s.lastImpact != nil {
		for id, v := range s.lastImpact {
			var n [4032]float64
			copy(n[:ref.WeekSlots], v[ref.WeekSlots:])
			s.lastImpact[id] = &n
		}
	}
	s.logf("  (rotation: offset now %d, archived week %d with %d devices)", s.M.Offset, w.Offset, len(w.Devices))
}

// stepMigrate grants the rotation loop one iteration. It returns whether the
// window moved. The model does not predict the trigger (C20 measures it); it
// requires that a move is exactly one valid rotation.
func (s *sess) stepMigrate() bool {
	s.t.Helper()
	pre := s.S.VerifSnapshot()
	s.logf("step(migrate) [now=%d off=%d]", s.now, s.M.Offset)
	if !world.Step(s.S.S, "migrate") {
		s.checkPanics("rotation step")
		s.fail("rotation loop did not complete the granted step")
	}
	s.checkPanics("rotation step")
	snap := s.S.VerifSnapshot()
	moved := false
	switch int64(snap.Offset) - int64(pre.Offset) {
	case 0:
	case ref.WeekSlots:
		moved = true
		s.modelRotate(pre)
	default:
		s.fail("one rotation step moved the window from %d to %d", pre.Offset, snap.Offset)
	}
	s.compare(snap, "rotation step")
	return moved
}

// stepMigrateRaw grants the rotation loop one iteration and reports whether
// the window moved; the model is left to the caller.
func (s *sess) stepMigrateRaw() bool {
	s.t.Helper()
	pre := s.S.VerifSnapshot().Offset
	s.logf("step(migrate, raw) [now=%d off=%d]", s.now, s.M.Offset)
	if !world.Step(s.S.S, "migrate") {
		s.checkPanics("rotation step")
		s.fail("rotation loop did not complete the granted step")
	}
	return s.S.VerifSnapshot().Offset != pre
}

func (s *sess) stepImpact() {
	s.t.Helper()
	s.logf("step(impact) [now=%d off=%d]", s.now, s.M.Offset)
	pre := s.S.VerifSnapshot()
	if !world.Step(s.S.S, "impact") {
		s.checkPanics("impact step")
		s.fail("impact job did not complete the granted step")
	}
	s.checkPanics("impact step")
	snap := s.S.VerifSnapshot()
	// only the current slot of each device may change
	idx := int64(s.now) - int64(snap.Offset)
	for id, v := range snap.Impact {
		p := pre.Impact[id]
		if p == nil {
			continue
		}
		for i := range v {
			if !ref.FloatBitsEqual(v[i], p[i]) && int64(i) != idx {
				s.fail("impact step changed slot %d of device %d, only the current slot %d may change", i, id, idx)
			}
		}
	}
	s.lastImpact = nil
	s.compare(snap, "impact step")
}

// compare checks a snapshot against the model.
func (s *sess) compare(snap *server.VerifSnap, where string) {
	s.t.Helper()
	m := s.M
	if snap.GCAAvailable != m.Registered {
		s.fail("after %s: server registered=%v, model %v", where, snap.GCAAvailable, m.Registered)
	}
	if m.Registered && [32]byte(snap.GCAKey) != m.GCA {
		s.fail("after %s: GCA key %x, model %x", where, snap.GCAKey[:6], m.GCA[:6])
	}
	if snap.Offset != m.Offset {
		s.fail("after %s: window offset %d, model %d", where, snap.Offset, m.Offset)
	}
	if len(snap.Equipment) != len(m.Devices) {
		s.fail("after %s: %d authorized devices %v, model %d %v", where, len(snap.Equipment), snapIDs(snap), len(m.Devices), m.DeviceIDs())
	}
	for id, a := range m.Devices {
		g, ok := snap.Equipment[id]
		if !ok {
			s.fail("after %s: device %d missing from the server", where, id)
		}
		if !bytes.Equal(world.FromGlowAuth(g).Encode(), a.Encode()) {
			s.fail("after %s: device %d authorization differs from the accepted one", where, id)
		}
		sid, ok := snap.ShortIDs[glow.PublicKey(a.PublicKey)]
		if !ok || sid != id {
			s.fail("after %s: public-key lookup of device %d broken (found=%v id=%d)", where, id, ok, sid)
		}
		if snap.Impact[id] == nil {
			s.fail("after %s: device %d has no impact-rate record", where, id)
		}
	}
	if len(snap.ShortIDs) != len(m.Devices) {
		s.fail("after %s: public-key index has %d entries, %d devices", where, len(snap.ShortIDs), len(m.Devices))
	}
	bans := m.BanIDs()
	if len(bans) != len(snap.Bans) {
		s.fail("after %s: banned ids %v, model %v", where, snap.Bans, bans)
	}
	for i := range bans {
		if bans[i] != snap.Bans[i] {
			s.fail("after %s: banned ids %v, model %v", where, snap.Bans, bans)
		}
	}
	if len(snap.Reports) != len(m.Live) {
		s.fail("after %s: report arrays for %d devices, model %d", where, len(snap.Reports), len(m.Live))
	}
	for id, slots := range m.Live {
		r := snap.Reports[id]
		if r == nil {
			s.fail("after %s: device %d has no report array", where, id)
		}
		for i := range slots {
			want := slots[i].Value()
			if r[i].PowerOutput != want {
				s.fail("after %s: device %d slot %d (timeslot %d) holds power %d, rules give %d", where, id, i, int(m.Offset)+i, r[i].PowerOutput, want)
			}
			if slots[i].Has {
				f := slots[i].First
				if r[i].ShortID != f.ShortID || r[i].Timeslot != f.Timeslot || [64]byte(r[i].Signature) != f.Sig {
					s.fail("after %s: device %d slot %d does not hold the first accepted report", where, id, i)
				}
			} else if r[i] != (glow.EquipmentReport{}) {
				s.fail("after %s: device %d slot %d is not blank although no report was accepted for it", where, id, i)
			}
		}
	}
	// impact rates only change on granted impact steps
	if !s.skipImpactCheck {
		if s.lastImpact != nil {
			for id, v := range snap.Impact {
				p := s.lastImpact[id]
				if p == nil {
					continue
				}
				if *p != *v {
					for i := range v {
						if !ref.FloatBitsEqual(v[i], p[i]) {
							s.fail("after %s: impact rate of device %d slot %d changed from %v to %v without an impact step", where, id, i, p[i], v[i])
						}
					}
				}
			}
		}
		s.lastImpact = snap.Impact
	}
	// archive
	if len(snap.History) != len(m.Archive) {
		s.fail("after %s: %d archived weeks, model %d", where, len(snap.History), len(m.Archive))
	}
	if int(snap.Offset) != len(snap.History)*ref.WeekSlots {
		s.fail("after %s: %d archived weeks but window offset %d (weeks must be contiguous from 0)", where, len(snap.History), snap.Offset)
	}
	for k := range m.Archive {
		s.compareWeek(fromGlowWeek(snap.History[k]), &m.Archive[k], [32]byte(snap.ServerPub), fmt.Sprintf("after %s: archived week %d", where, k))
	}
}

func snapIDs(snap *server.VerifSnap) []uint32 {
	var ids []uint32
	for id := range snap.Equipment {
		ids = append(ids, id)
	}
	sort.Slice(ids, func(i, j int) bool { return ids[i] < ids[j] })
	return ids
}

func fromGlowWeek(a server.AllDeviceStats) ref.Week {
	w := ref.Week{Offset: a.TimeslotOffset, Sig: [64]byte(a.Signature)}
	for _, d := range a.Devices {
		w.Devices = append(w.Devices, ref.DeviceWeek{PublicKey: [32]byte(d.PublicKey), Power: d.PowerOutputs, Impact: d.ImpactRates})
	}
	return w
}

// compareWeek checks a served/stored weekly record against the model week:
// same device set, same values, same label, valid server signature over the
// reference signing bytes.
func (s *sess) compareWeek(w ref.Week, mw *ref.ModelWeek, serverPub [32]byte, what string) {
	s.t.Helper()
	if w.Offset != mw.Offset {
		s.fail("%s: labelled %d, expected %d", what, w.Offset, mw.Offset)
	}
	if len(w.Devices) != len(mw.Devices) {
		s.fail("%s: %d devices, expected %d", what, len(w.Devices), len(mw.Devices))
	}
	seen := map[[32]byte]bool{}
	for i := range w.Devices {
		d := &w.Devices[i]
		if seen[d.PublicKey] {
			s.fail("%s: device %x listed twice", what, d.PublicKey[:6])
		}
		seen[d.PublicKey] = true
		p, ok := mw.Devices[d.PublicKey]
		if !ok {
			s.fail("%s: unexpected device %x", what, d.PublicKey[:6])
		}
		if *p != d.Power {
			for j := range p {
				if p[j] != d.Power[j] {
					s.fail("%s: device %x slot %d power %d, expected %d", what, d.PublicKey[:6], j, d.Power[j], p[j])
				}
			}
		}
		if im, ok := mw.Impact[d.PublicKey]; ok && im != nil {
			for j := range im {
				if !ref.FloatBitsEqual(im[j], d.Impact[j]) {
					s.fail("%s: device %x slot %d impact rate %v, expected %v", what, d.PublicKey[:6], j, d.Impact[j], im[j])
				}
			}
		}
	}
	if !ref.Verify(serverPub, w.SigningBytes(), w.Sig) {
		s.fail("%s: signature does not verify under the server key over the documented layout", what)
	}
}

// ---- public surface ------------------------------------------------------

type statsJSON struct {
	Devices []struct {
		PublicKey    [32]byte
		PowerOutputs []int64
		ImpactRates  []float64
	}
	TimeslotOffset uint32
	Signature      [64]byte
}

func (j *statsJSON) week() (ref.Week, error) {
	w := ref.Week{Offset: j.TimeslotOffset, Sig: j.Signature}
	for _, d := range j.Devices {
		if len(d.PowerOutputs) != ref.WeekSlots || len(d.ImpactRates) != ref.WeekSlots {
			return w, fmt.Errorf("device record with %d power values and %d impact rates", len(d.PowerOutputs), len(d.ImpactRates))
		}
		dw := ref.DeviceWeek{PublicKey: d.PublicKey}
		for i := range dw.Power {
			dw.Power[i] = uint64(d.PowerOutputs[i])
			dw.Impact[i] = d.ImpactRates[i]
		}
		w.Devices = append(w.Devices, dw)
	}
	return w, nil
}

// getStats fetches a week; ok=false if the server refused.
func (s *sess) getStats(offset string, extra string) (ref.Week, int, []byte) {
	s.t.Helper()
	st, body, err := s.S.Get("/api/v1/all-device-stats?timeslot_offset=" + offset + extra)
	if err != nil {
		s.checkPanics("stats request")
		s.fail("stats request failed: %v", err)
	}
	s.checkPanics("stats request")
	if st != 200 {
		return ref.Week{}, st, body
	}
	var j statsJSON
	if err := json.Unmarshal(body, &j); err != nil {
		s.fail("stats reply does not parse: %v", err)
	}
	w, err := j.week()
	if err != nil {
		s.fail("stats reply malformed: %v", err)
	}
	return w, st, body
}

// liveModelWeek builds the ModelWeek for a live half from the model and the
// given snapshot's impact rates.
func (s *sess) liveModelWeek(x int, snap *server.VerifSnap) *ref.ModelWeek {
	mw := &ref.ModelWeek{Offset: s.M.Offset + uint32(x*ref.WeekSlots), Devices: s.M.LiveWeek(x), Impact: map[[32]byte]*[ref.WeekSlots]float64{}}
	for id, a := range s.M.Devices {
		if snap != nil && snap.Impact[id] != nil {
			var r [ref.WeekSlots]float64
			copy(r[:], snap.Impact[id][x*ref.WeekSlots:])
			mw.Impact[a.PublicKey] = &r
		}
	}
	return mw
}

// checkArchivedServed fetches archived week k and checks it against the model
// and against the first record ever served for it.
func (s *sess) checkArchivedServed(k int, serverPub [32]byte) {
	s.t.Helper()
	w, st, body := s.getStats(fmt.Sprint(k*ref.WeekSlots), "")
	if st != 200 {
		s.fail("archived week %d refused: %d %s", k, st, body)
	}
	s.compareWeek(w, &s.M.Archive[k], serverPub, fmt.Sprintf("served archived week %d", k))
	canon := w.Encode()
	if first, ok := s.firstSeen[uint32(k)]; ok {
		if !bytes.Equal(first, canon) {
			s.fail("archived week %d is served differently from the first time it was served (devices, order, values, rates, label or signature changed)", k)
		}
	} else {
		s.firstSeen[uint32(k)] = canon
	}
}

// crossCheckAPI compares every public observable with the model.
func (s *sess) crossCheckAPI() {
	s.t.Helper()
	s.logf("crossCheckAPI")
	snap := s.S.VerifSnapshot()
	s.compare(snap, "api cross-check")
	m := s.M
	serverPub := [32]byte(snap.ServerPub)
	// equipment list
	st, body, err := s.S.Get("/api/v1/equipment")
	if err != nil || st != 200 {
		s.checkPanics("GET equipment")
		s.fail("GET equipment failed: %v %d", err, st)
	}
	var er server.EquipmentResponse
	if err := json.Unmarshal(body, &er); err != nil {
		s.fail("equipment reply does not parse: %v", err)
	}
	if len(er.EquipmentDetails) != len(m.Devices) {
		s.fail("GET equipment lists %d devices, model %d", len(er.EquipmentDetails), len(m.Devices))
	}
	for id, a := range m.Devices {
		g, ok := er.EquipmentDetails[id]
		if !ok || !bytes.Equal(world.FromGlowAuth(g).Encode(), a.Encode()) {
			s.fail("GET equipment: device %d missing or altered", id)
		}
	}
	// recent reports and sync per device
	for id, a := range m.Devices {
		st, body, err := s.S.Get("/api/v1/recent-reports?publicKey=" + hex.EncodeToString(a.PublicKey[:]))
		if err != nil || st != 200 {
			s.checkPanics("GET recent-reports")
			s.fail("GET recent-reports for device %d failed: %v %d %s", id, err, st, body)
		}
		var rr server.RecentReportsResponse
		if err := json.Unmarshal(body, &rr); err != nil {
			s.fail("recent-reports reply does not parse: %v", err)
		}
		for i := range rr.Reports {
			if rr.Reports[i].PowerOutput != m.Live[id][i].Value() {
				s.fail("recent-reports: device %d slot %d power %d, rules give %d", id, i, rr.Reports[i].PowerOutput, m.Live[id][i].Value())
			}
		}
		reply, refused, err := s.S.SyncDevice(id)
		if err != nil || refused {
			s.checkPanics("sync")
			s.fail("sync for authorized device %d failed: %v refused=%v", id, err, refused)
		}
		sr, err := ref.DecodeSyncReply(reply)
		if err != nil {
			s.fail("sync reply for device %d does not decode: %v", id, err)
		}
		if sr.DeviceKey != a.PublicKey || sr.Offset != m.Offset {
			s.fail("sync reply for device %d: key/offset mismatch (offset %d, model %d)", id, sr.Offset, m.Offset)
		}
		for i := 0; i < ref.WindowSlots; i++ {
			bit := sr.Bitfield[i/8]&(1<<(uint(i)%8)) != 0
			if bit != (m.Live[id][i].Value() != 0) {
				s.fail("sync reply for device %d: bit %d is %v, record value %d", id, i, bit, m.Live[id][i].Value())
			}
		}
		if !ref.Verify(serverPub, sr.Body(), sr.Sig) {
			s.fail("sync reply for device %d: server signature invalid", id)
		}
	}
	// banned ids are gone everywhere
	for id := range m.Bans {
		_, refused, err := s.S.SyncDevice(id)
		if err != nil || !refused {
			s.fail("sync for banned device %d must be refused (err=%v refused=%v)", id, err, refused)
		}
	}
	// live weeks
	for x := 0; x < 2; x++ {
		w, st, body := s.getStats(fmt.Sprint(int(m.Offset)+x*ref.WeekSlots), "")
		if st != 200 {
			s.fail("live week %d refused: %d %s", x, st, body)
		}
		s.compareWeek(w, s.liveModelWeek(x, snap), serverPub, fmt.Sprintf("served live week %d", x))
	}
	// archived weeks
	for k := range m.Archive {
		s.checkArchivedServed(k, serverPub)
	}
	// future and misaligned weeks are refused
	for _, q := range []string{fmt.Sprint(int(m.Offset) + 2*ref.WeekSlots), fmt.Sprint(int(m.Offset) + 1), fmt.Sprint(int(m.Offset) + 2015), "junk", "-2016", "4294969312"} {
		if _, st, _ := s.getStats(q, ""); st == 200 {
			s.fail("statistics for week %q served, it must be refused", q)
		}
	}
	s.checkFiles(snap)
}

// checkFiles compares the data files with the model.
func (s *sess) checkFiles(snap *server.VerifSnap) {
	s.t.Helper()
	auths, err := os.ReadFile(filepath.Join(s.dir, "equipment-authorizations.dat"))
	if err != nil || !bytes.Equal(auths, s.M.AuthLog) {
		s.fail("equipment-authorizations.dat (%d bytes) differs from the accepted+conflicting authorizations in order (%d bytes): %v", len(auths), len(s.M.AuthLog), err)
	}
	stats, err := os.ReadFile(filepath.Join(s.dir, "allDeviceStats.dat"))
	if err != nil {
		s.fail("allDeviceStats.dat: %v", err)
	}
	var want []byte
	for _, h := range snap.History {
		want = append(want, fromGlowWeek(h).Encode()...)
	}
	if !bytes.Equal(stats, want) {
		s.fail("allDeviceStats.dat (%d bytes) is not the concatenation of the %d archived weekly records (%d bytes)", len(stats), len(snap.History), len(want))
	}
	rep, err := os.ReadFile(filepath.Join(s.dir, "equipment-reports.dat"))
	if err != nil || len(rep)%80 != 0 {
		s.fail("equipment-reports.dat: %v, %d bytes", err, len(rep))
	}
	if s.M.Registered {
		k, err := os.ReadFile(filepath.Join(s.dir, "gcaPubKey.dat"))
		if err != nil || !bytes.Equal(k, s.M.GCA[:]) {
			s.fail("gcaPubKey.dat does not hold the registered key")
		}
	} else if _, err := os.Stat(filepath.Join(s.dir, "gcaPubKey.dat")); err == nil {
		s.fail("gcaPubKey.dat exists although no registration was accepted")
	}
}

// crossCheckFilesAndEquipment compares GET /equipment and the data files with the model.
func (s *sess) crossCheckFilesAndEquipment() {
	s.t.Helper()
	snap := s.S.VerifSnapshot()
	st, body, err := s.S.Get("/api/v1/equipment")
	if err != nil || st != 200 {
		s.fail("GET equipment failed: %v %d", err, st)
	}
	var er server.EquipmentResponse
	if err := json.Unmarshal(body, &er); err != nil {
		s.fail("equipment reply does not parse: %v", err)
	}
	if len(er.EquipmentDetails) != len(s.M.Devices) {
		s.fail("GET equipment lists %d devices, model %d", len(er.EquipmentDetails), len(s.M.Devices))
	}
	for id, a := range s.M.Devices {
		g, ok := er.EquipmentDetails[id]
		if !ok || !bytes.Equal(world.FromGlowAuth(g).Encode(), a.Encode()) {
			s.fail("GET equipment: device %d missing or altered in transport (lat %v lon %v)", id, a.Latitude, a.Longitude)
		}
	}
	s.checkFiles(snap)
}
