//go:build test && verif

package props

// C15 - wire and disk encodings are exact, stable and unambiguous. Every
// encoder/decoder of the repository is compared with the independently
// written reference codec (harness/ref/codec.go): bytes, signing bytes
// (ASCII name prefix + little-endian fields), round trips, refusal of wrong
// lengths, stream decoding, signing determinism, and bit-flip sensitivity of
// verification under two independent verifiers.

import (
	"bytes"
	"encoding/json"
	"fmt"
	"math"
	"os"
	"path/filepath"
	"testing"
	"time"

	"github.com/glowlabs-org/gca-backend/client"
	"github.com/glowlabs-org/gca-backend/glow"
	"github.com/glowlabs-org/gca-backend/server"
	"pgregory.net/rapid"

	"verif/harness/ev"
	"verif/harness/ref"
	"verif/harness/world"
)

func drawU64(t *rapid.T, name string) uint64 {
	switch rapid.IntRange(0, 3).Draw(t, name+"Class") {
	case 0:
		return rapid.SampledFrom([]uint64{0, 1, math.MaxUint64, math.MaxInt64, 1 << 63, 255, 256}).Draw(t, name)
	default:
		return rapid.Uint64().Draw(t, name)
	}
}

func drawU32(t *rapid.T, name string) uint32 {
	switch rapid.IntRange(0, 3).Draw(t, name+"Class") {
	case 0:
		return rapid.SampledFrom([]uint32{0, 1, math.MaxUint32, math.MaxInt32, 1 << 31, 255, 256, 65535, 65536}).Draw(t, name)
	default:
		return rapid.Uint32().Draw(t, name)
	}
}

func drawU16(t *rapid.T, name string) uint16 {
	return rapid.SampledFrom([]uint16{0, 1, 255, 256, 65535, uint16(rapid.Uint16().Draw(t, name))}).Draw(t, name+"Pick")
}

func draw32(t *rapid.T, name string) [32]byte {
	var b [32]byte
	switch rapid.IntRange(0, 4).Draw(t, name+"Class") {
	case 0:
	case 1:
		for i := range b {
			b[i] = 0xff
		}
	default:
		copy(b[:], rapid.SliceOfN(rapid.Byte(), 32, 32).Draw(t, name))
	}
	return b
}

func draw64(t *rapid.T, name string) [64]byte {
	var b [64]byte
	if rapid.IntRange(0, 4).Draw(t, name+"Class") != 0 {
		copy(b[:], rapid.SliceOfN(rapid.Byte(), 64, 64).Draw(t, name))
	}
	return b
}

func drawFloatNaNFree(t *rapid.T, name string) float64 {
	return finiteFloatOrInf(t, name)
}

// finiteFloatOrInf: any float64 that is not NaN (C15 says NaN-free), built from bits.
func finiteFloatOrInf(t *rapid.T, name string) float64 {
	switch rapid.IntRange(0, 3).Draw(t, name+"Class") {
	case 0:
		return rapid.SampledFrom([]float64{0, math.Copysign(0, -1), math.SmallestNonzeroFloat64, -math.SmallestNonzeroFloat64, 2.2250738585072014e-308, math.MaxFloat64, -math.MaxFloat64, 1, -1}).Draw(t, name)
	default:
		for {
			f := math.Float64frombits(rapid.Uint64().Draw(t, name))
			if !math.IsNaN(f) {
				return f
			}
		}
	}
}

func drawLocation(t *rapid.T, max int, name string) string {
	var n int
	switch rapid.IntRange(0, 4).Draw(t, name+"Class") {
	case 0:
		n = 0
	case 1:
		n = max
	case 2:
		n = rapid.SampledFrom([]int{1, 254, 255, 256, 65534, 65535}).Draw(t, name+"Len")
		if n > max {
			n = max - 1
		}
	default:
		n = rapid.IntRange(0, 40).Draw(t, name+"Len")
	}
	b := rapid.SliceOfN(rapid.Byte(), n, n).Draw(t, name)
	return string(b)
}

func drawRefAuth(t *rapid.T) ref.Auth {
	return ref.Auth{ShortID: drawU32(t, "id"), PublicKey: draw32(t, "pk"), Latitude: finiteFloat(t, "lat"), Longitude: finiteFloat(t, "lon"),
		Capacity: drawU64(t, "cap"), Debt: drawU64(t, "debt"), Expiration: drawU32(t, "exp"), Initialization: drawU32(t, "init"),
		ProtocolFee: drawU64(t, "fee"), Sig: draw64(t, "sig")}
}

func drawRefServer(t *rapid.T, maxLoc int) ref.AuthServer {
	return ref.AuthServer{PublicKey: draw32(t, "spk"), Banned: rapid.Bool().Draw(t, "banned"), Location: drawLocation(t, maxLoc, "loc"),
		HttpPort: drawU16(t, "http"), TcpPort: drawU16(t, "tcp"), UdpPort: drawU16(t, "udp"), Sig: draw64(t, "ssig")}
}

func TestC15Codecs(t *testing.T) {
	ev.Rule("C15(codecs): rapid draws values for every structure (report, authorization, weekly statistics stream of 0-3 records with 0-2 devices, authorized server with location 0..255, migration order with 0-3 servers, registration, client server map with 0-6 entries and locations 0..65535) from boundary sets (0, max, -0, subnormals, all-ones) and random bits; oracle: Serialize/SigningBytes equal the reference bytes (little-endian, ASCII name prefix), decode(encode(x)) == x, every length other than the valid one is refused, the stream decoder consumes exactly one record and refuses every truncated tail, distinct values give distinct signing bytes, JSON transport of an authorization is bit-exact; non-trivial = value with >=1 boundary field or a multi-record/multi-entry container; distinct by encoded bytes")
	rapid.Check(t, func(t *rapid.T) {
		ev.Eval(1)
		switch kind := rapid.SampledFrom([]string{"report", "auth", "week", "server", "migration", "registration", "servermap", "crosstype"}).Draw(t, "structure"); kind {
		case "report":
			r := ref.Report{ShortID: drawU32(t, "id"), Timeslot: drawU32(t, "slot"), Power: drawU64(t, "power"), Sig: draw64(t, "sig")}
			g := glow.EquipmentReport{ShortID: r.ShortID, Timeslot: r.Timeslot, PowerOutput: r.Power, Signature: glow.Signature(r.Sig)}
			if !bytes.Equal(g.Serialize(), r.Encode()) {
				t.Fatalf("C15: report serialization differs from the documented layout: %x vs %x", g.Serialize(), r.Encode())
			}
			if !bytes.Equal(g.SigningBytes(), r.SigningBytes()) {
				t.Fatalf("C15: report signing bytes differ from name prefix + little-endian fields")
			}
			back, err := glow.DeserializeReport(r.Encode())
			if err != nil || back != g {
				t.Fatalf("C15: report does not round-trip: %v", err)
			}
			n := rapid.IntRange(0, 200).Draw(t, "len")
			if n != 80 {
				if _, err := glow.DeserializeReport(make([]byte, n)); err == nil {
					t.Fatalf("C15: %d-byte input accepted as a report", n)
				}
			}
			ev.NonTrivial("c15|report|" + string(r.Encode()))
			ev.Sample("c15:report", map[string]interface{}{"id": r.ShortID, "slot": r.Timeslot, "power": r.Power, "bytes_hex": fmt.Sprintf("%x", r.Encode())})
		case "auth":
			a := drawRefAuth(t)
			g := world.ToGlowAuth(a)
			if !bytes.Equal(g.Serialize(), a.Encode()) {
				t.Fatalf("C15: authorization serialization differs from the documented layout")
			}
			if !bytes.Equal(g.SigningBytes(), a.SigningBytes()) {
				t.Fatalf("C15: authorization signing bytes differ from name prefix + fields")
			}
			back, err := glow.DeserializeEquipmentAuthorization(a.Encode())
			if err != nil || !bytes.Equal(back.Serialize(), a.Encode()) {
				t.Fatalf("C15: authorization does not round-trip: %v", err)
			}
			n := rapid.IntRange(0, 300).Draw(t, "len")
			if n != 148 {
				if _, err := glow.DeserializeEquipmentAuthorization(make([]byte, n)); err == nil {
					t.Fatalf("C15: %d-byte input accepted as an authorization", n)
				}
			}
			// JSON transport
			j, err := json.Marshal(g)
			if err != nil {
				t.Fatalf("C15: authorization does not marshal: %v", err)
			}
			var g2 glow.EquipmentAuthorization
			if err := json.Unmarshal(j, &g2); err != nil {
				t.Fatalf("C15: authorization JSON does not parse back: %v", err)
			}
			if !bytes.Equal(g2.Serialize(), a.Encode()) {
				t.Fatalf("C15: JSON transport changed the authorization (lat %v lon %v)", a.Latitude, a.Longitude)
			}
			ev.NonTrivial("c15|auth|" + string(a.Encode()))
			ev.Sample("c15:authorization", map[string]interface{}{"lat": a.Latitude, "lon": a.Longitude, "capacity": a.Capacity, "json": string(j)})
		case "week":
			nrec := rapid.IntRange(0, 3).Draw(t, "records")
			var stream []byte
			var weeks []ref.Week
			for i := 0; i < nrec; i++ {
				w := ref.Week{Offset: drawU32(t, "off"), Sig: draw64(t, "wsig")}
				for d, nd := 0, rapid.IntRange(0, 2).Draw(t, "devices"); d < nd; d++ {
					dw := ref.DeviceWeek{PublicKey: draw32(t, "dpk")}
					for k, nk := 0, rapid.IntRange(0, 6).Draw(t, "nonzero"); k < nk; k++ {
						idx := rapid.SampledFrom([]int{0, 1, 1007, 2014, 2015, rapid.IntRange(0, 2015).Draw(t, "idx")}).Draw(t, "idxPick")
						dw.Power[idx] = drawU64(t, "p")
						dw.Impact[idx] = finiteFloatOrInf(t, "ir")
					}
					w.Devices = append(w.Devices, dw)
				}
				weeks = append(weeks, w)
				g := toGlowWeek(w)
				if !bytes.Equal(g.Serialize(), w.Encode()) {
					t.Fatalf("C15: weekly statistics serialization differs from the documented layout")
				}
				if !bytes.Equal(g.SigningBytes(), w.SigningBytes()) {
					t.Fatalf("C15: weekly statistics signing bytes differ from name prefix + fields")
				}
				stream = append(stream, w.Encode()...)
			}
			rest := stream
			for i := 0; i < nrec; i++ {
				g, n, err := server.DeserializeStreamAllDeviceStats(rest)
				if err != nil {
					t.Fatalf("C15: record %d of a %d-record stream refused: %v", i, nrec, err)
				}
				if n != len(weeks[i].Encode()) {
					t.Fatalf("C15: stream decoder consumed %d bytes for a record of %d", n, len(weeks[i].Encode()))
				}
				if !bytes.Equal(g.Serialize(), weeks[i].Encode()) {
					t.Fatalf("C15: record %d does not round-trip", i)
				}
				rest = rest[n:]
			}
			if len(rest) != 0 {
				t.Fatalf("C15: %d bytes left after decoding the stream", len(rest))
			}
			if nrec > 0 {
				// every proper prefix of the last record is refused
				last := weeks[nrec-1].Encode()
				cut := rapid.IntRange(0, len(last)-1).Draw(t, "cut")
				if _, _, err := server.DeserializeStreamAllDeviceStats(last[:cut]); err == nil {
					t.Fatalf("C15: record truncated to %d of %d bytes accepted", cut, len(last))
				}
			}
			if nrec >= 2 {
				ev.NonTrivial(fmt.Sprintf("c15|week|%d|%x", nrec, ref.Keccak(stream)))
				ev.Sample("c15:weekly-stream", map[string]interface{}{"records": nrec, "stream_bytes": len(stream), "devices_in_first": len(weeks[0].Devices)})
			}
		case "server":
			a := drawRefServer(t, 255)
			g := world.ToGlowServer(a)
			if !bytes.Equal(g.Serialize(), a.Encode()) {
				t.Fatalf("C15: authorized-server serialization differs from the documented layout (location %d bytes)", len(a.Location))
			}
			if !bytes.Equal(g.SigningBytes(), a.SigningBytes()) {
				t.Fatalf("C15: authorized-server signing bytes differ")
			}
			// Locations longer than the single length byte can express: the layout
			// is not defined for them (decode cannot work), but the POST endpoint
			// does not limit the length, so two distinct servers must still never
			// share signing bytes (a GCA signature for one must not fit another).
			if rapid.IntRange(0, 2).Draw(t, "longLocation") == 0 {
				l := rapid.SampledFrom([]int{256, 257, 300, 511, 512, 1000}).Draw(t, "longLen")
				x := a
				x.Location = string(rapid.SliceOfN(rapid.Byte(), l, l).Draw(t, "longLoc"))
				y := x
				switch rapid.IntRange(0, 3).Draw(t, "longVariant") {
				case 0: // differs beyond byte 255 only
					pos := rapid.IntRange(255, l-1).Draw(t, "longPos")
					bs := []byte(x.Location)
					bs[pos] ^= byte(rapid.IntRange(1, 255).Draw(t, "longXor"))
					y.Location = string(bs)
				case 1: // its 255-byte prefix
					y.Location = x.Location[:255]
				case 2: // same length byte (length mod 256), same leading bytes
					y.Location = x.Location[:l-256]
				default: // one byte shorter
					y.Location = x.Location[:l-1]
				}
				gx, gy := world.ToGlowServer(x), world.ToGlowServer(y)
				if bytes.Equal(gx.SigningBytes(), gy.SigningBytes()) {
					t.Fatalf("C15: authorized servers with different locations (%d and %d bytes) share signing bytes", len(x.Location), len(y.Location))
				}
				mx := world.ToGlowMigration(ref.Migration{Equipment: a.PublicKey, NewGCA: a.PublicKey, NewShortID: 7, NewServers: []ref.AuthServer{x}})
				my := world.ToGlowMigration(ref.Migration{Equipment: a.PublicKey, NewGCA: a.PublicKey, NewShortID: 7, NewServers: []ref.AuthServer{y}})
				if bytes.Equal(mx.SigningBytes(), my.SigningBytes()) {
					t.Fatalf("C15: migration orders whose servers differ in location (%d and %d bytes) share signing bytes", len(x.Location), len(y.Location))
				}
				ev.Label("c15:long-location-injectivity")
			}
			ev.NonTrivial("c15|server|" + string(a.Encode()))
			ev.Sample("c15:authorized-server", map[string]interface{}{"location_len": len(a.Location), "banned": a.Banned, "ports": []uint16{a.HttpPort, a.TcpPort, a.UdpPort}})
		case "migration":
			m := ref.Migration{Equipment: draw32(t, "eq"), NewGCA: draw32(t, "ngca"), NewShortID: drawU32(t, "nid"), Sig: draw64(t, "msig")}
			for i, n := 0, rapid.IntRange(0, 3).Draw(t, "servers"); i < n; i++ {
				m.NewServers = append(m.NewServers, drawRefServer(t, 255))
			}
			g := world.ToGlowMigration(m)
			if !bytes.Equal(g.Serialize(), m.Encode()) {
				t.Fatalf("C15: migration serialization differs from the documented layout")
			}
			if !bytes.Equal(g.SigningBytes(), m.SigningBytes()) {
				t.Fatalf("C15: migration signing bytes differ")
			}
			if len(m.NewServers) >= 2 {
				ev.NonTrivial("c15|migration|" + string(m.Encode()))
			}
		case "registration":
			r := ref.Registration{GCAKey: draw32(t, "gk")}
			g := server.GCARegistration{GCAKey: glow.PublicKey(r.GCAKey)}
			if !bytes.Equal(g.SigningBytes(), r.SigningBytes()) {
				t.Fatalf("C15: registration signing bytes differ")
			}
			ev.NonTrivial("c15|registration|" + string(r.GCAKey[:]))
		case "servermap":
			n := rapid.IntRange(0, 6).Draw(t, "entries")
			m := map[glow.PublicKey]client.GCAServer{}
			want := map[[32]byte]ref.ClientServer{}
			var refBytes []byte
			for i := 0; i < n; i++ {
				k := draw32(t, "mk")
				k[0] = byte(i) // distinct keys
				cs := ref.ClientServer{Banned: rapid.Bool().Draw(t, "mb"), Location: drawLocation(t, 65535, "mloc"), HttpPort: drawU16(t, "mh"), TcpPort: drawU16(t, "mt"), UdpPort: drawU16(t, "mu")}
				m[glow.PublicKey(k)] = client.GCAServer{Banned: cs.Banned, Location: cs.Location, HttpPort: cs.HttpPort, TcpPort: cs.TcpPort, UdpPort: cs.UdpPort}
				want[k] = cs
				refBytes = append(refBytes, ref.EncodeClientServerEntry(k, cs)...)
			}
			raw, err := client.SerializeGCAServerMap(m)
			if err != nil {
				t.Fatalf("C15: server map does not serialize: %v", err)
			}
			if len(raw) != len(refBytes) {
				t.Fatalf("C15: server map serialization is %d bytes, the layout gives %d", len(raw), len(refBytes))
			}
			ks, vs, err := ref.DecodeClientServerMap(raw)
			if err != nil || len(ks) != n {
				t.Fatalf("C15: serialized server map does not decode with the reference decoder: %v", err)
			}
			for i := range ks {
				if w, ok := want[ks[i]]; !ok || w != vs[i] {
					t.Fatalf("C15: server map entry %x altered by serialization", ks[i][:4])
				}
			}
			back, err := client.UntrustedDeserializeGCAServerMap(refBytes)
			if err != nil || len(back) != n {
				t.Fatalf("C15: reference-encoded server map refused or wrong size: %v", err)
			}
			for k, w := range want {
				g := back[glow.PublicKey(k)]
				if g.Banned != w.Banned || g.Location != w.Location || g.HttpPort != w.HttpPort || g.TcpPort != w.TcpPort || g.UdpPort != w.UdpPort {
					t.Fatalf("C15: server map entry %x does not round-trip", k[:4])
				}
			}
			if n > 0 {
				// a cut that is not at an entry boundary must be refused
				cut := rapid.IntRange(1, len(refBytes)-1).Draw(t, "cut")
				bounds := map[int]bool{0: true}
				for off := 0; off < len(refBytes); {
					off += 41 + entryLen(refBytes[off:])
					bounds[off] = true
				}
				boundary := bounds[cut]
				if !boundary {
					if _, err := client.UntrustedDeserializeGCAServerMap(refBytes[:cut]); err == nil {
						t.Fatalf("C15: server map truncated to %d of %d bytes (not an entry boundary) accepted", cut, len(refBytes))
					}
				}
			}
			if n >= 2 {
				ev.NonTrivial(fmt.Sprintf("c15|servermap|%x", ref.Keccak(refBytes)))
				ev.Sample("c15:client-server-map", map[string]interface{}{"entries": n, "bytes": len(refBytes)})
			}
		case "crosstype":
			// distinct values / distinct types never share signing bytes
			a1, a2 := drawRefAuth(t), drawRefAuth(t)
			if !bytes.Equal(a1.Body(), a2.Body()) {
				g1, g2 := world.ToGlowAuth(a1), world.ToGlowAuth(a2)
				if bytes.Equal(g1.SigningBytes(), g2.SigningBytes()) {
					t.Fatalf("C15: two different authorizations share signing bytes")
				}
			}
			r := glow.EquipmentReport{ShortID: a1.ShortID, Timeslot: a1.Expiration, PowerOutput: a1.Capacity}
			s1 := world.ToGlowServer(drawRefServer(t, 255))
			m := world.ToGlowMigration(ref.Migration{Equipment: a1.PublicKey, NewGCA: a2.PublicKey})
			reg := server.GCARegistration{GCAKey: glow.PublicKey(a1.PublicKey)}
			ws := toGlowWeek(ref.Week{Offset: a1.Expiration})
			g1 := world.ToGlowAuth(a1)
			all := [][]byte{r.SigningBytes(), g1.SigningBytes(), s1.SigningBytes(), m.SigningBytes(), reg.SigningBytes(), ws.SigningBytes()}
			names := []string{"EquipmentReport", "EquipmentAuthorization", "AuthorizedServer", "EquipmentMigration", "GCARegistration", "AllDeviceStats"}
			for i := range all {
				if !bytes.HasPrefix(all[i], []byte(names[i])) {
					t.Fatalf("C15: signing bytes of %s do not start with the structure's name", names[i])
				}
				for j := range all {
					if i != j && bytes.Equal(all[i], all[j]) {
						t.Fatalf("C15: %s and %s share signing bytes", names[i], names[j])
					}
				}
			}
			ev.NonTrivial(fmt.Sprintf("c15|crosstype|%x", ref.Keccak(g1.SigningBytes())))
		}
	})
}

func entryLen(b []byte) int {
	if len(b) < 35 {
		return 0
	}
	return int(b[33]) | int(b[34])<<8
}

func toGlowWeek(w ref.Week) server.AllDeviceStats {
	g := server.AllDeviceStats{TimeslotOffset: w.Offset, Signature: glow.Signature(w.Sig)}
	for _, d := range w.Devices {
		g.Devices = append(g.Devices, server.DeviceStats{PublicKey: glow.PublicKey(d.PublicKey), PowerOutputs: d.Power, ImpactRates: d.Impact})
	}
	return g
}

func TestC15Crypto(t *testing.T) {
	ev.Rule("C15(crypto): rapid draws a key (from seed bytes) and a message; oracle: glow.Sign twice gives identical signatures, which verify under glow.Verify, under the libsecp256k1 reference verifier on independently computed Keccak-256, and under a math/big ECDSA verifier; every single-bit change of the message, the signature or the public key makes all three verifiers say false; a signature made with another nonce also verifies (and differs); non-trivial = every case; distinct by (key, message, flipped bit)")
	rapid.Check(t, func(t *rapid.T) {
		ev.Eval(1)
		k := ref.KeyFromSeed(rapid.SliceOfN(rapid.Byte(), 1, 8).Draw(t, "seed"))
		msg := rapid.SliceOfN(rapid.Byte(), 0, 120).Draw(t, "msg")
		s1 := glow.Sign(msg, glow.PrivateKey(k.Priv))
		s2 := glow.Sign(msg, glow.PrivateKey(k.Priv))
		if s1 != s2 {
			t.Fatalf("C15: signing the same message twice gave different signatures")
		}
		if [64]byte(s1) != ref.Sign(k, msg) {
			t.Fatalf("C15: glow.Sign differs from the reference signer")
		}
		all := func(pub [32]byte, m []byte, sig [64]byte) (bool, bool, bool) {
			return glow.Verify(glow.PublicKey(pub), m, glow.Signature(sig)), ref.Verify(pub, m, sig), ref.VerifyBig(pub, m, sig)
		}
		if a, b, c := all(k.Pub, msg, s1); !a || !b || !c {
			t.Fatalf("C15: genuine signature rejected (glow=%v ref=%v big=%v)", a, b, c)
		}
		if alt, ok := ref.SignWithNonce(k, msg, rapid.SliceOfN(rapid.Byte(), 1, 4).Draw(t, "nonce")); ok {
			if a, b, c := all(k.Pub, msg, alt); !a || !b || !c {
				t.Fatalf("C15: second valid signature rejected (glow=%v ref=%v big=%v)", a, b, c)
			}
		}
		what := rapid.SampledFrom([]string{"message", "signature", "key"}).Draw(t, "flipWhat")
		pub, m, sig := k.Pub, append([]byte(nil), msg...), [64]byte(s1)
		switch what {
		case "message":
			if len(m) == 0 {
				m = []byte{0}
			} else {
				pos := rapid.IntRange(0, len(m)*8-1).Draw(t, "bit")
				m[pos/8] ^= 1 << (uint(pos) % 8)
			}
		case "signature":
			pos := rapid.IntRange(0, 511).Draw(t, "bit")
			sig[pos/8] ^= 1 << (uint(pos) % 8)
		case "key":
			pos := rapid.IntRange(0, 255).Draw(t, "bit")
			pub[pos/8] ^= 1 << (uint(pos) % 8)
		}
		if a, b, c := all(pub, m, sig); a || b || c {
			t.Fatalf("C15: verification still succeeds after flipping one bit of the %s (glow=%v ref=%v big=%v)", what, a, b, c)
		}
		ev.NonTrivial(fmt.Sprintf("c15|crypto|%x|%x|%s", k.Pub[:8], ref.Keccak(m)[:8], what))
		ev.Label("c15:flip-" + what)
		ev.Sample("c15:bit-flip-"+what, map[string]interface{}{"key": fmt.Sprintf("%x", k.Pub[:8]), "message_len": len(msg), "flipped": what})
	})
}

// End to end: POST (JSON) -> GET /equipment (JSON) -> bytes in the
// authorization file, for authorizations with extreme field values.
func TestC15JSONEndToEnd(t *testing.T) {
	ev.Rule("C15(end-to-end): authorizations with boundary field values and any finite latitude/longitude are POSTed as JSON to a live server; GET /equipment and the 148-byte record in equipment-authorizations.dat must reproduce them bit for bit")
	server.VerifSetStepping(true)
	s := newSess(t, "C15", keyFor("temp"), 0)
	defer func() { s.cleanup() }()
	s.start()
	gca := keyFor("gca")
	s.register(gca, keyFor("temp"), true)
	born := time.Now()
	n := 0
	rapid.Check(t, func(t *rapid.T) {
		// a server of the test build ends the process after 120 s of life: take a fresh one in time
		if time.Since(born) > fixtureMaxAge {
			s.cleanup()
			s = newSess(t, "C15", keyFor("temp"), 0)
			s.start()
			s.register(gca, keyFor("temp"), true)
			born = time.Now()
		}
		s.t = t
		a := drawRefAuth(t)
		a.ShortID = uint32(1000 + n)
		a.PublicKey = keyFor(fmt.Sprintf("e2e-%d", n%50)).Pub
		a.PublicKey[31] ^= byte(n)
		a.PublicKey[30] ^= byte(n >> 8)
		n++
		a.Sig = ref.Sign(gca, a.SigningBytes())
		s.skipImpactCheck = true
		s.light = true
		st, body, err := s.S.Authorize(a)
		if err != nil || st != 200 {
			t.Fatalf("C15: authorization refused: %v %d %s", err, st, body)
		}
		s.M.Authorize(a)
		ev.Eval(1)
		ev.NonTrivial("c15|e2e|" + string(a.Encode()))
	})
	s.t = t
	s.crossCheckFilesAndEquipment()
	s.close()
}

// TestC15RegistrationFile - the persisted form of a registration is the 32-byte
// key file; whatever the 32 bytes are, a restart must give back exactly them.
func TestC15RegistrationFile(t *testing.T) {
	ev.Rule("C15(registration file): a fresh server accepts a registration whose GCA key is drawn from boundary sets (all zero, all ones, random, a key with its last 1-4 bytes replaced by 0x00 / line feed / carriage return / space / tab / 0xff, a key made of one such byte); oracle: gcaPubKey.dat holds exactly the 32 bytes, and after a restart the server is registered with exactly those bytes; a server that refuses such a registration stays unregistered after the restart; non-trivial = key with a text-like tail; distinct by key")
	server.VerifSetStepping(true)
	rapid.Check(t, func(t *rapid.T) {
		ev.Eval(1)
		glow.SetCurrentTimeslot(0)
		temp := keyFor("temp")
		k := draw32(t, "gk")
		tail := false
		switch rapid.IntRange(0, 2).Draw(t, "tailClass") {
		case 1:
			b := rapid.SampledFrom([]byte{0x00, 0x0a, 0x0d, 0x20, 0x09, 0xff}).Draw(t, "tailByte")
			for i, n := 0, rapid.IntRange(1, 4).Draw(t, "tailLen"); i < n; i++ {
				k[31-i] = b
			}
			tail = true
		case 2:
			b := rapid.SampledFrom([]byte{0x0a, 0x0d, 0x20, 0x09}).Draw(t, "allByte")
			for i := range k {
				k[i] = b
			}
			tail = true
		}
		dir := world.NewServerDir(temp.Pub)
		defer os.RemoveAll(dir)
		defer world.StopAllLeaked()
		S, err := world.StartServer(dir)
		if err != nil {
			t.Fatalf("C15: fresh server does not start: %v", err)
		}
		st, _, err := S.Register(k, temp)
		if err != nil {
			S.Close()
			t.Fatalf("C15: registration request failed: %v", err)
		}
		accepted := st == 200
		if err := S.Close(); err != nil {
			t.Fatalf("C15: close: %v", err)
		}
		file, ferr := os.ReadFile(filepath.Join(dir, "gcaPubKey.dat"))
		if accepted && (ferr != nil || !bytes.Equal(file, k[:])) {
			t.Fatalf("C15: registration of key %x answered 200; gcaPubKey.dat holds %x (%v)", k, file, ferr)
		}
		S, err = world.StartServer(dir)
		if err != nil {
			t.Fatalf("C15: the server does not start after registering key %x (answered %d): %v", k, st, err)
		}
		snap := S.VerifSnapshot()
		S.Close()
		if snap.GCAAvailable != accepted {
			t.Fatalf("C15: registration of key %x answered %d; after a restart registered=%v", k, st, snap.GCAAvailable)
		}
		if accepted && [32]byte(snap.GCAKey) != k {
			t.Fatalf("C15: registered key %x reads back as %x after a restart", k, snap.GCAKey)
		}
		if tail {
			ev.NonTrivial("c15|regfile|" + string(k[:]))
			ev.Label("c15:registration-key-with-text-like-tail")
		}
	})
}
