//go:build test && verif

package world

import (
	"sync/atomic"
	"time"
)

// Active time. Several oracles have to decide that something is wedged (a
// held mutex, a loop that no longer takes ticks, a Close that never returns).
// That needs a time budget, but a wall-clock budget also expires when the
// whole process (or the whole sandbox) is frozen for a while - observed: three
// unrelated 10-20 s "timeouts" in the same second while the sandbox was being
// snapshotted. Budgets are therefore counted in ACTIVE time: a heartbeat
// goroutine adds up its 5 ms naps and caps every gap at 50 ms, so a freeze or
// severe CPU starvation barely consumes budget. This can only make the
// harness more patient, never raise an alarm.
var activeNS int64

func init() {
	go func() {
		last := time.Now()
		for {
			time.Sleep(5 * time.Millisecond)
			now := time.Now()
			d := now.Sub(last)
			if d > 50*time.Millisecond {
				d = 50 * time.Millisecond
			}
			atomic.AddInt64(&activeNS, int64(d))
			last = now
		}
	}()
}

// ActiveNow returns the active time elapsed since process start.
func ActiveNow() time.Duration { return time.Duration(atomic.LoadInt64(&activeNS)) }

// WaitActive polls cond until it holds or the active-time budget is used up.
func WaitActive(budget, poll time.Duration, cond func() bool) bool {
	start := ActiveNow()
	nap := 20 * time.Microsecond // adaptive: most conditions hold almost at once
	for {
		if cond() {
			return true
		}
		if ActiveNow()-start > budget {
			return cond()
		}
		time.Sleep(nap)
		if nap < poll {
			nap *= 2
		}
	}
}

// DoActive runs f on its own goroutine and waits for it within an active-time
// budget. It returns false if the budget was used up (f may still be running).
func DoActive(budget time.Duration, f func()) bool {
	done := make(chan struct{})
	go func() {
		defer close(done)
		f()
	}()
	start := ActiveNow()
	for {
		select {
		case <-done:
			return true
		case <-time.After(10 * time.Millisecond):
			if ActiveNow()-start > budget {
				select {
				case <-done:
					return true
				default:
					return false
				}
			}
		}
	}
}

// stepper is implemented by the server and the client (VerifStep hook).
type stepper interface{ VerifStep(name string) bool }

// Step grants one step of a gated background loop and waits for it within an
// active-time budget of 20 s (the step itself takes milliseconds; the loops
// sleep 20-100 ms between iterations).
func Step(x stepper, name string) bool {
	ok := false
	done := DoActive(20*time.Second, func() { ok = x.VerifStep(name) })
	return done && ok
}
