//go:build test && verif

package world

import (
	"encoding/binary"
	"io"
	"net"
	"sync"
	"time"

	"verif/harness/ref"
)

// FakeServer is a TCP responder that plays a GCA server towards a client. It
// has its own key pair; what it does with each connection is decided by the
// Behave callback (one call per accepted connection).
type FakeServer struct {
	Key  ref.Key
	Port uint16
	ln   net.Listener

	mu     sync.Mutex
	dials  int
	log    []string
	behave func(attempt int, req []byte) Action
	wg     sync.WaitGroup
}

// AcceptLog returns one line per accepted connection (time, remote address).
func (f *FakeServer) AcceptLog() []string {
	f.mu.Lock()
	defer f.mu.Unlock()
	return append([]string(nil), f.log...)
}

// Action describes the reaction to one connection.
type Action struct {
	Kind string // "close" (accept and close), "reset", "raw" (write Raw and close), "stall" (hold the connection for StallFor, then close)
	Raw  []byte
	// ReadRequest: read the 4 request bytes before acting (default true for "raw")
	NoRead   bool
	StallFor time.Duration
}

func NewFakeServer(key ref.Key) *FakeServer {
	ln, err := net.Listen("tcp", "127.0.0.1:0")
	must(err)
	f := &FakeServer{Key: key, ln: ln, Port: uint16(ln.Addr().(*net.TCPAddr).Port)}
	f.wg.Add(1)
	go f.loop()
	return f
}

// SetBehaviour installs the per-connection decision function.
func (f *FakeServer) SetBehaviour(b func(attempt int, req []byte) Action) {
	f.mu.Lock()
	f.behave = b
	f.mu.Unlock()
}

// Dials returns how many connections were accepted so far.
func (f *FakeServer) Dials() int {
	f.mu.Lock()
	defer f.mu.Unlock()
	return f.dials
}

func (f *FakeServer) loop() {
	defer f.wg.Done()
	for {
		conn, err := f.ln.Accept()
		if err != nil {
			return
		}
		f.mu.Lock()
		n := f.dials
		f.dials++
		f.log = append(f.log, time.Now().Format("15:04:05.000000")+" "+conn.RemoteAddr().String())
		b := f.behave
		f.mu.Unlock()
		f.wg.Add(1)
		go func() {
			defer f.wg.Done()
			defer conn.Close()
			conn.SetDeadline(time.Now().Add(120 * time.Second))
			var act Action
			var req []byte
			if b == nil {
				act = Action{Kind: "close"}
			} else {
				// peek at the behaviour without the request first
				act = b(n, nil)
				if !act.NoRead && act.Kind != "close" && act.Kind != "reset" {
					req = make([]byte, 4)
					if _, err := io.ReadFull(conn, req); err != nil {
						return
					}
					act = b(n, req)
				}
			}
			switch act.Kind {
			case "reset":
				if tc, ok := conn.(*net.TCPConn); ok {
					tc.SetLinger(0)
				}
			case "raw":
				conn.Write(act.Raw)
			case "stall":
				time.Sleep(act.StallFor)
			}
		}()
	}
}

func (f *FakeServer) Close() {
	f.ln.Close()
	f.wg.Wait()
}

// ClientEntry is the entry a client's server map needs to reach this server.
func (f *FakeServer) ClientEntry(banned bool, udpPort uint16) ref.ClientServer {
	return ref.ClientServer{Banned: banned, Location: "127.0.0.1", HttpPort: 1, TcpPort: f.Port, UdpPort: udpPort}
}

// Frame prepends the two-byte little-endian length prefix.
func Frame(body []byte) []byte {
	out := make([]byte, 2+len(body))
	binary.LittleEndian.PutUint16(out, uint16(len(body)))
	copy(out[2:], body)
	return out
}

// SignReply fills the timestamp (if zero) and the server signature of a reply.
func SignReply(r ref.SyncReply, signer ref.Key) ref.SyncReply {
	if r.Timestamp == 0 {
		r.Timestamp = uint64(time.Now().Unix())
	}
	r.Sig = ref.Sign(signer, r.Body())
	return r
}

// DeadPort returns a TCP port on which nothing listens (dial is refused). It
// must be a port that no process can be handed by the kernel later: an
// ephemeral port that was free a moment ago can be bound by a fake server of
// ANOTHER test process running in parallel, and a "dead" entry would then reach
// that process (observed: a foreign connection counted as a second dial).
// Port 1 lies outside the ephemeral range and nothing listens on it.
func DeadPort() uint16 { return 1 }

// TCPRelay sits in front of a real server's sync port. Each accepted
// connection consumes one prepared outcome: "pass" forwards request and reply
// unchanged; the others inject a failure.
type TCPRelay struct {
	Port   uint16
	target string
	ln     net.Listener
	mu     sync.Mutex
	plan   []RelayOutcome
	conns  int
	wg     sync.WaitGroup
}

type RelayOutcome struct {
	Kind string // pass, close, reset, short, garbage
	Keep int    // short: how many reply bytes to forward
	Raw  []byte // garbage: what to send instead
}

func NewTCPRelay(targetPort uint16) *TCPRelay {
	ln, err := net.Listen("tcp", "127.0.0.1:0")
	must(err)
	r := &TCPRelay{ln: ln, Port: uint16(ln.Addr().(*net.TCPAddr).Port), target: net.JoinHostPort("127.0.0.1", itoa(int(targetPort)))}
	r.wg.Add(1)
	go r.loop()
	return r
}

func itoa(n int) string {
	if n == 0 {
		return "0"
	}
	var b []byte
	for n > 0 {
		b = append([]byte{byte('0' + n%10)}, b...)
		n /= 10
	}
	return string(b)
}

// Retarget points the relay to another server port (after a server restart).
func (r *TCPRelay) Retarget(port uint16) {
	r.mu.Lock()
	r.target = net.JoinHostPort("127.0.0.1", itoa(int(port)))
	r.mu.Unlock()
}

// Plan sets the outcomes of the next connections (the default is "pass").
func (r *TCPRelay) Plan(p []RelayOutcome) {
	r.mu.Lock()
	r.plan = append([]RelayOutcome(nil), p...)
	r.mu.Unlock()
}

func (r *TCPRelay) Conns() int {
	r.mu.Lock()
	defer r.mu.Unlock()
	return r.conns
}

func (r *TCPRelay) loop() {
	defer r.wg.Done()
	for {
		conn, err := r.ln.Accept()
		if err != nil {
			return
		}
		r.mu.Lock()
		r.conns++
		out := RelayOutcome{Kind: "pass"}
		if len(r.plan) > 0 {
			out = r.plan[0]
			r.plan = r.plan[1:]
		}
		target := r.target
		r.mu.Unlock()
		r.wg.Add(1)
		go func() {
			defer r.wg.Done()
			defer conn.Close()
			conn.SetDeadline(time.Now().Add(120 * time.Second))
			switch out.Kind {
			case "close":
				return
			case "reset":
				if tc, ok := conn.(*net.TCPConn); ok {
					tc.SetLinger(0)
				}
				return
			}
			req := make([]byte, 4)
			if _, err := io.ReadFull(conn, req); err != nil {
				return
			}
			if out.Kind == "garbage" {
				conn.Write(out.Raw)
				return
			}
			up, err := net.DialTimeout("tcp", target, 5*time.Second)
			if err != nil {
				return
			}
			defer up.Close()
			up.SetDeadline(time.Now().Add(120 * time.Second))
			up.Write(req)
			reply, _ := io.ReadAll(up)
			if out.Kind == "short" && out.Keep < len(reply) {
				reply = reply[:out.Keep]
			}
			conn.Write(reply)
		}()
	}
}

func (r *TCPRelay) Close() {
	r.ln.Close()
	r.wg.Wait()
}
