//go:build test && verif

// Package world contains the fixtures that run the real server and client
// (built from /repo with tags 'test verif') inside the harness process.
package world

import (
	"bytes"
	"encoding/binary"
	"encoding/json"
	"fmt"
	"io"
	"net"
	"net/http"
	"os"
	"path/filepath"
	"runtime"
	"time"

	"github.com/glowlabs-org/gca-backend/glow"
	"github.com/glowlabs-org/gca-backend/server"

	"verif/harness/ref"
)

// Server is a running GCA server plus what the harness needs to talk to it.
type Server struct {
	S    *server.GCAServer
	Dir  string
	HTTP uint16
	TCP  uint16
	UDP  uint16
	udp  *net.UDPConn
}

// ScratchRoot is where data directories are created.
func ScratchRoot() string {
	if d := os.Getenv("VERIF_SCRATCH"); d != "" {
		return d
	}
	return os.TempDir()
}

// NewServerDir creates a data directory holding the temporary GCA key and the
// (unused, but required) WattTime credential files.
func NewServerDir(tempPub [32]byte) string {
	dir, err := os.MkdirTemp(ScratchRoot(), "vsrv-")
	if err != nil {
		panic(err)
	}
	must(os.WriteFile(filepath.Join(dir, "gcaTempPubKey.dat"), tempPub[:], 0644))
	must(os.MkdirAll(filepath.Join(dir, "watttime_data"), 0755))
	must(os.WriteFile(filepath.Join(dir, "watttime_data", "username"), []byte("u"), 0644))
	must(os.WriteFile(filepath.Join(dir, "watttime_data", "password"), []byte("p"), 0644))
	return dir
}

func must(err error) {
	if err != nil {
		panic(err)
	}
}

// StartServer runs NewGCAServer on dir. A panic inside the constructor is
// returned as an error whose text starts with "panic:". Instances that the
// constructor created but did not return are stopped.
func StartServer(dir string) (srv *Server, err error) {
	before := map[*server.GCAServer]bool{}
	for _, s := range server.VerifLiveServers() {
		before[s] = true
	}
	var g *server.GCAServer
	func() {
		defer func() {
			if r := recover(); r != nil {
				buf := make([]byte, 1<<16)
				n := runtime.Stack(buf, false)
				err = fmt.Errorf("panic: %v\n%s", r, buf[:n])
			}
		}()
		g, err = server.NewGCAServer(dir)
	}()
	if err != nil || g == nil {
		for _, s := range server.VerifLiveServers() {
			if !before[s] {
				s.VerifStop()
			}
		}
		if err == nil {
			err = fmt.Errorf("NewGCAServer returned nil without error")
		}
		return nil, err
	}
	h, t, u := g.Ports()
	srv = &Server{S: g, Dir: dir, HTTP: h, TCP: t, UDP: u}
	return srv, nil
}

// Close shuts the server down the way production does (Close runs the
// server's own consistency check first). A panic is returned as an error.
func (s *Server) Close() (err error) {
	if s.udp != nil {
		s.udp.Close()
		s.udp = nil
	}
	done := make(chan error, 1)
	go func() {
		defer func() {
			if r := recover(); r != nil {
				done <- fmt.Errorf("panic: %v", r)
			}
		}()
		done <- s.S.Close()
	}()
	if !WaitActive(30*time.Second, 5*time.Millisecond, func() bool { return len(done) > 0 }) {
		s.S.VerifStop()
		return fmt.Errorf("timeout: Close did not return within 30 s of active time")
	}
	err = <-done
	if err != nil && len(err.Error()) >= 6 && err.Error()[:6] == "panic:" {
		s.S.VerifStop()
	} else {
		s.S.VerifForget()
	}
	return err
}

// Abandon stops a (possibly wedged) server without waiting.
func (s *Server) Abandon() {
	if s.udp != nil {
		s.udp.Close()
		s.udp = nil
	}
	s.S.VerifStop()
}

// StopAllLeaked stops every server still registered; safety net at the end of
// a case so that test mode's lifetime check can never fire.
func StopAllLeaked() int {
	n := 0
	for _, s := range server.VerifLiveServers() {
		s.VerifStop()
		n++
	}
	return n
}

// SendUDP delivers one datagram through the real socket and waits until the
// listener has finished with it.
func (s *Server) SendUDP(b []byte) error {
	if s.udp == nil {
		c, err := net.DialUDP("udp", nil, &net.UDPAddr{IP: net.IPv4(127, 0, 0, 1), Port: int(s.UDP)})
		if err != nil {
			return err
		}
		s.udp = c
	}
	before := s.S.VerifUDPHandled()
	if _, err := s.udp.Write(b); err != nil {
		return err
	}
	start := ActiveNow()
	for i := 0; s.S.VerifUDPHandled() == before; i++ {
		if i > 1000 && ActiveNow()-start > 8*time.Second {
			return fmt.Errorf("timeout: datagram of %d bytes not handled within 8 s of active time", len(b))
		}
		if i < 200 {
			runtime.Gosched()
		} else {
			time.Sleep(50 * time.Microsecond)
		}
	}
	return nil
}

func (s *Server) url(path string) string {
	return fmt.Sprintf("http://127.0.0.1:%d%s", s.HTTP, path)
}

// HTTPOnce sends one request on a connection of its own and returns status
// and body. Two things are avoided on purpose. (1) Reuse of a kept-alive
// connection: the server closes idle connections after ReadTimeout (2.5 s in
// this build) and Go's client does not retry a POST that hits a connection
// closed at that very moment, which would look like "no response" (observed
// once under load in a C07 batch). (2) "Connection: close" on the request
// (DisableKeepAlives): net/http then does not drain an unread request body
// before closing, and the resulting TCP reset can reach the client before it
// has finished writing a large body (observed with a 200 kB body in C12).
// Neither is a matter of the server under test.
func HTTPOnce(req *http.Request, timeout time.Duration) (int, []byte, error) {
	tr := &http.Transport{MaxIdleConns: 1}
	defer tr.CloseIdleConnections()
	c := &http.Client{Transport: tr, Timeout: timeout}
	resp, err := c.Do(req)
	if err != nil {
		return 0, nil, err
	}
	defer resp.Body.Close()
	b, err := io.ReadAll(resp.Body)
	return resp.StatusCode, b, err
}

// Do performs an HTTP request and returns status and body.
func (s *Server) Do(method, path string, body []byte) (int, []byte, error) {
	req, err := http.NewRequest(method, s.url(path), bytes.NewReader(body))
	if err != nil {
		return 0, nil, err
	}
	if body != nil {
		req.Header.Set("Content-Type", "application/json")
	}
	var st int
	var b []byte
	var rerr error
	ok := DoActive(20*time.Second, func() {
		st, b, rerr = HTTPOnce(req, 180*time.Second)
	})
	if !ok {
		return 0, nil, fmt.Errorf("timeout: no response to %s %s within 20 s of active time", method, path)
	}
	return st, b, rerr
}

func (s *Server) Get(path string) (int, []byte, error) { return s.Do("GET", path, nil) }

func (s *Server) PostJSON(path string, v interface{}) (int, []byte, error) {
	j, err := json.Marshal(v)
	if err != nil {
		return 0, nil, err
	}
	return s.Do("POST", path, j)
}

// SyncRaw speaks the TCP sync protocol: sends req and returns everything the
// server writes before closing (bounded by a deadline).
func (s *Server) SyncRaw(req []byte) ([]byte, error) {
	conn, err := net.DialTimeout("tcp", fmt.Sprintf("127.0.0.1:%d", s.TCP), 60*time.Second)
	if err != nil {
		return nil, err
	}
	defer conn.Close()
	conn.SetDeadline(time.Now().Add(120 * time.Second))
	if len(req) > 0 {
		if _, err := conn.Write(req); err != nil {
			return nil, err
		}
	}
	return io.ReadAll(conn)
}

// SyncRawSplit sends the request in two TCP segments (req[:cut], a pause,
// req[cut:]) and returns everything the server answers.
func (s *Server) SyncRawSplit(req []byte, cut int) ([]byte, error) {
	conn, err := net.DialTimeout("tcp", fmt.Sprintf("127.0.0.1:%d", s.TCP), 60*time.Second)
	if err != nil {
		return nil, err
	}
	defer conn.Close()
	conn.SetDeadline(time.Now().Add(120 * time.Second))
	if _, err := conn.Write(req[:cut]); err != nil {
		return nil, err
	}
	time.Sleep(40 * time.Millisecond) // lets the first segment be read on its own
	if _, err := conn.Write(req[cut:]); err != nil {
		return nil, err
	}
	return io.ReadAll(conn)
}

// SyncDeviceSplit is SyncDevice with the four request bytes sent in two pieces.
func (s *Server) SyncDeviceSplit(id uint32, cut int) (reply []byte, refused bool, err error) {
	var req [4]byte
	binary.LittleEndian.PutUint32(req[:], id)
	// The server drops a connection whose request is not complete within its
	// read deadline (2.5 s in the test build). The pause between the two pieces
	// is wall-clock time, so a stall of the whole machine can land there: an
	// empty answer is retried before it is reported.
	var raw []byte
	for attempt := 0; attempt < 4; attempt++ {
		raw, err = s.SyncRawSplit(req[:], cut)
		if err == nil && len(raw) > 0 {
			break
		}
	}
	if err != nil {
		return nil, false, err
	}
	if len(raw) == 1 && raw[0] == 0 {
		return nil, true, nil
	}
	if len(raw) < 2 || int(binary.LittleEndian.Uint16(raw)) != len(raw)-2 {
		return nil, false, fmt.Errorf("sync reply of %d bytes with a wrong length prefix", len(raw))
	}
	return raw[2:], false, nil
}

// SyncDevice requests the sync reply for a device id and strips the length
// prefix. refused is true when the server answered with the single zero byte.
func (s *Server) SyncDevice(id uint32) (reply []byte, refused bool, err error) {
	var req [4]byte
	binary.LittleEndian.PutUint32(req[:], id)
	raw, err := s.SyncRaw(req[:])
	if err != nil {
		return nil, false, err
	}
	if len(raw) == 1 && raw[0] == 0 {
		return nil, true, nil
	}
	if len(raw) < 2 {
		return nil, false, fmt.Errorf("sync reply of %d bytes", len(raw))
	}
	l := int(binary.LittleEndian.Uint16(raw))
	if l != len(raw)-2 {
		return nil, false, fmt.Errorf("sync reply length prefix %d but %d bytes follow", l, len(raw)-2)
	}
	return raw[2:], false, nil
}

// Register submits a GCA registration for gca signed by signer.
func (s *Server) Register(gca [32]byte, signer ref.Key) (int, []byte, error) {
	reg := ref.Registration{GCAKey: gca}
	reg.Sig = ref.Sign(signer, reg.SigningBytes())
	return s.PostJSON("/api/v1/register-gca", server.GCARegistration{GCAKey: glow.PublicKey(gca), Signature: glow.Signature(reg.Sig)})
}

// ToGlowAuth converts a reference authorization into the repository's type.
func ToGlowAuth(a ref.Auth) glow.EquipmentAuthorization {
	return glow.EquipmentAuthorization{
		ShortID: a.ShortID, PublicKey: glow.PublicKey(a.PublicKey), Latitude: a.Latitude, Longitude: a.Longitude,
		Capacity: a.Capacity, Debt: a.Debt, Expiration: a.Expiration, Initialization: a.Initialization,
		ProtocolFee: a.ProtocolFee, Signature: glow.Signature(a.Sig),
	}
}

// FromGlowAuth converts the repository's type into the reference type.
func FromGlowAuth(a glow.EquipmentAuthorization) ref.Auth {
	return ref.Auth{
		ShortID: a.ShortID, PublicKey: [32]byte(a.PublicKey), Latitude: a.Latitude, Longitude: a.Longitude,
		Capacity: a.Capacity, Debt: a.Debt, Expiration: a.Expiration, Initialization: a.Initialization,
		ProtocolFee: a.ProtocolFee, Sig: [64]byte(a.Signature),
	}
}

// Authorize posts an authorization through the JSON endpoint.
func (s *Server) Authorize(a ref.Auth) (int, []byte, error) {
	return s.PostJSON("/api/v1/authorize-equipment", ToGlowAuth(a))
}

func ToGlowServer(a ref.AuthServer) server.AuthorizedServer {
	return server.AuthorizedServer{PublicKey: glow.PublicKey(a.PublicKey), Banned: a.Banned, Location: a.Location,
		HttpPort: a.HttpPort, TcpPort: a.TcpPort, UdpPort: a.UdpPort, GCAAuthorization: glow.Signature(a.Sig)}
}

func FromGlowServer(a server.AuthorizedServer) ref.AuthServer {
	return ref.AuthServer{PublicKey: [32]byte(a.PublicKey), Banned: a.Banned, Location: a.Location,
		HttpPort: a.HttpPort, TcpPort: a.TcpPort, UdpPort: a.UdpPort, Sig: [64]byte(a.GCAAuthorization)}
}

func ToGlowMigration(m ref.Migration) server.EquipmentMigration {
	em := server.EquipmentMigration{Equipment: glow.PublicKey(m.Equipment), NewGCA: glow.PublicKey(m.NewGCA), NewShortID: m.NewShortID, Signature: glow.Signature(m.Sig)}
	for _, s := range m.NewServers {
		em.NewServers = append(em.NewServers, ToGlowServer(s))
	}
	return em
}

// CopyDir copies a data directory (regular files, one level of sub-directory).
func CopyDir(src string) string {
	dst, err := os.MkdirTemp(ScratchRoot(), "vimg-")
	must(err)
	must(copyTree(src, dst))
	return dst
}

func copyTree(src, dst string) error {
	ents, err := os.ReadDir(src)
	if err != nil {
		return err
	}
	for _, e := range ents {
		sp, dp := filepath.Join(src, e.Name()), filepath.Join(dst, e.Name())
		if e.IsDir() {
			if err := os.MkdirAll(dp, 0755); err != nil {
				return err
			}
			if err := copyTree(sp, dp); err != nil {
				return err
			}
			continue
		}
		b, err := os.ReadFile(sp)
		if err != nil {
			return err
		}
		if err := os.WriteFile(dp, b, 0644); err != nil {
			return err
		}
	}
	return nil
}

// VerifSnapshot forwards to the server's snapshot accessor.
func (s *Server) VerifSnapshot() *server.VerifSnap { return s.S.VerifSnapshot() }

// SendUDPNoWait sends a datagram without waiting for it to be processed (for
// concurrent workloads; the caller waits for the handled counter afterwards).
func (s *Server) SendUDPNoWait(b []byte) error {
	c, err := net.DialUDP("udp", nil, &net.UDPAddr{IP: net.IPv4(127, 0, 0, 1), Port: int(s.UDP)})
	if err != nil {
		return err
	}
	defer c.Close()
	_, err = c.Write(b)
	return err
}
