//go:build test && verif

package world

import (
	"encoding/binary"
	"fmt"
	"net"
	"os"
	"path/filepath"
	"runtime"
	"strings"
	"sync"
	"time"

	"github.com/glowlabs-org/gca-backend/client"

	"verif/harness/ref"
)

// ClientCfg describes the files a monitoring client starts from.
type ClientCfg struct {
	Key           ref.Key
	GCA           [32]byte
	ShortID       uint32
	Servers       map[[32]byte]ref.ClientServer
	ServerOrder   [][32]byte // file order (optional)
	HistoryOffset uint32
	CT            *string // content of ct-settings.txt, nil = absent
	Energy        string  // content of energy_data.csv
}

// WriteServerMap writes gcaServers.dat in the documented layout.
func WriteServerMap(dir string, servers map[[32]byte]ref.ClientServer, order [][32]byte) {
	var b []byte
	if order == nil {
		for k := range servers {
			order = append(order, k)
		}
	}
	for _, k := range order {
		b = append(b, ref.EncodeClientServerEntry(k, servers[k])...)
	}
	must(os.WriteFile(filepath.Join(dir, "gcaServers.dat"), b, 0644))
}

// NewClientDir creates a client directory.
func NewClientDir(cfg ClientCfg) string {
	dir, err := os.MkdirTemp(ScratchRoot(), "vcli-")
	must(err)
	keys := append(append([]byte{}, cfg.Key.Pub[:]...), cfg.Key.Priv[:]...)
	must(os.WriteFile(filepath.Join(dir, "clientKeys.dat"), keys, 0644))
	must(os.WriteFile(filepath.Join(dir, "gcaPubKey.dat"), cfg.GCA[:], 0644))
	var id [4]byte
	binary.LittleEndian.PutUint32(id[:], cfg.ShortID)
	must(os.WriteFile(filepath.Join(dir, "shortID.dat"), id[:], 0644))
	var off [4]byte
	binary.LittleEndian.PutUint32(off[:], cfg.HistoryOffset)
	must(os.WriteFile(filepath.Join(dir, "history.dat"), off[:], 0644))
	WriteServerMap(dir, cfg.Servers, cfg.ServerOrder)
	if cfg.CT != nil {
		must(os.WriteFile(filepath.Join(dir, "ct-settings.txt"), []byte(*cfg.CT), 0644))
	}
	must(os.WriteFile(filepath.Join(dir, "energy_data.csv"), []byte(cfg.Energy), 0644))
	return dir
}

// WriteEnergy replaces the energy file (atomically, as a meter would not tear
// the file in the middle of the client's single read).
func WriteEnergy(dir, content string) {
	tmp := filepath.Join(dir, "energy_data.csv.tmp")
	must(os.WriteFile(tmp, []byte(content), 0644))
	must(os.Rename(tmp, filepath.Join(dir, "energy_data.csv")))
}

// StartClient runs NewClient; a panic is returned as an error starting with
// "panic:". Instances that were created but not returned are stopped.
func StartClient(dir string) (c *client.Client, err error) {
	before := map[*client.Client]bool{}
	for _, x := range client.VerifLiveClients() {
		before[x] = true
	}
	func() {
		defer func() {
			if r := recover(); r != nil {
				buf := make([]byte, 1<<16)
				n := runtime.Stack(buf, false)
				err = fmt.Errorf("panic: %v\n%s", r, buf[:n])
			}
		}()
		c, err = client.NewClient(dir)
	}()
	if err != nil || c == nil {
		for _, x := range client.VerifLiveClients() {
			if !before[x] {
				x.VerifStop()
			}
		}
		if err == nil {
			err = fmt.Errorf("NewClient returned nil without error")
		}
		return nil, err
	}
	return c, nil
}

// CloseClient closes a client with a time bound.
func CloseClient(c *client.Client) error {
	done := make(chan error, 1)
	go func() {
		defer func() {
			if r := recover(); r != nil {
				done <- fmt.Errorf("panic: %v", r)
			}
		}()
		done <- c.Close()
	}()
	if !WaitActive(20*time.Second, 5*time.Millisecond, func() bool { return len(done) > 0 }) {
		c.VerifStop()
		return fmt.Errorf("timeout: client Close did not return within 20 s of active time")
	}
	err := <-done
	c.VerifForget()
	return err
}

// StopAllLeakedClients stops every client still registered.
func StopAllLeakedClients() int {
	n := 0
	for _, c := range client.VerifLiveClients() {
		c.VerifStop()
		n++
	}
	return n
}

// UDPSink records every datagram sent to it.
type UDPSink struct {
	conn *net.UDPConn
	Port uint16
	mu   sync.Mutex
	got  [][]byte
	done chan struct{}
}

func NewUDPSink() *UDPSink {
	conn, err := net.ListenUDP("udp", &net.UDPAddr{IP: net.IPv4(127, 0, 0, 1), Port: 0})
	must(err)
	s := &UDPSink{conn: conn, Port: uint16(conn.LocalAddr().(*net.UDPAddr).Port), done: make(chan struct{})}
	go func() {
		defer close(s.done)
		buf := make([]byte, 2048)
		for {
			n, _, err := conn.ReadFromUDP(buf)
			if err != nil {
				return
			}
			s.mu.Lock()
			s.got = append(s.got, append([]byte(nil), buf[:n]...))
			s.mu.Unlock()
		}
	}()
	return s
}

// Count returns the number of datagrams received so far.
func (s *UDPSink) Count() int {
	s.mu.Lock()
	defer s.mu.Unlock()
	return len(s.got)
}

// WaitCount waits until at least n datagrams arrived (loopback delivery is
// asynchronous) or the timeout expires.
func (s *UDPSink) WaitCount(n int, d time.Duration) bool {
	// the budget is counted in active time (see patience.go)
	return WaitActive(d, 200*time.Microsecond, func() bool { return s.Count() >= n })
}

// Settle waits until everything sent to the sink so far has been recorded:
// the kernel's receive queue of the socket is empty (/proc/net/udp) and the
// count has been stable for a few polls. Datagrams are written to the socket
// synchronously by the sender, so once the sender has returned they are either
// in that queue or already recorded. (A pure "quiet period" is not reliable
// when the machine is busy: the reader goroutine may simply not have run yet.)
func (s *UDPSink) Settle(quiet time.Duration) {
	stable := 0
	last := -1
	start := ActiveNow()
	for stable < 3 && ActiveNow()-start < 10*time.Second {
		time.Sleep(quiet/4 + 200*time.Microsecond)
		q := udpRxQueue(s.Port)
		c := s.Count()
		if q == 0 && c == last {
			stable++
		} else {
			stable = 0
		}
		last = c
	}
}

// udpRxQueue returns the number of bytes queued in the kernel for the UDP
// socket bound to 127.0.0.1:port (-1 if unknown).
func udpRxQueue(port uint16) int {
	b, err := os.ReadFile("/proc/net/udp")
	if err != nil {
		return 0
	}
	want := fmt.Sprintf("0100007F:%04X", port)
	for _, line := range strings.Split(string(b), "\n") {
		f := strings.Fields(line)
		if len(f) > 4 && f[1] == want {
			parts := strings.Split(f[4], ":")
			if len(parts) == 2 {
				var q int
				fmt.Sscanf(parts[1], "%X", &q)
				return q
			}
		}
	}
	return 0
}

// All returns a copy of everything received.
func (s *UDPSink) All() [][]byte {
	s.mu.Lock()
	defer s.mu.Unlock()
	return append([][]byte(nil), s.got...)
}

func (s *UDPSink) Close() {
	s.conn.Close()
	<-s.done
}
