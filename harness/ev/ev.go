// Package ev collects the evidence counters of a check run: how many cases
// were generated, which of them were non-trivial by the check's stated rule
// (counted as distinct keys), label distributions and sample cases. The
// counters are written to the file named by VERIF_EV_OUT; the driver merges
// the shards and writes evidence/<id>.json.
package ev

import (
	"encoding/json"
	"fmt"
	"hash/fnv"
	"os"
	"sort"
	"sync"
)

const (
	maxSamples = 12
	maxHashes  = 400000
)

type out struct {
	Evaluations int64                  `json:"evaluations"`
	Labels      map[string]int64       `json:"labels"`
	Hashes      []string               `json:"nontrivial_hashes"`
	HashesTrunc bool                   `json:"hashes_truncated"`
	Samples     []interface{}          `json:"samples"`
	Extra       map[string]interface{} `json:"extra"`
	Known       map[string]int64       `json:"known_findings_hit"`
	Excluded    map[string]int64       `json:"excluded_known"`
	Rules       []string               `json:"rules"`
	Exhaustive  map[string]bool        `json:"exhaustive_subspaces"`
}

var (
	mu         sync.Mutex
	evals      int64
	labels     = map[string]int64{}
	hashes     = map[uint64]struct{}{}
	truncated  bool
	samples    []interface{}
	sampleKeys = map[string]int{}
	extra      = map[string]interface{}{}
	known      = map[string]int64{}
	excluded   = map[string]int64{}
	rules      []string
	exhaustive = map[string]bool{}
)

// Eval counts n generated cases.
func Eval(n int) {
	mu.Lock()
	evals += int64(n)
	mu.Unlock()
}

// Label counts one occurrence of a class of case.
func Label(name string) {
	mu.Lock()
	labels[name]++
	mu.Unlock()
}

// LabelN counts n occurrences.
func LabelN(name string, n int) {
	mu.Lock()
	labels[name] += int64(n)
	mu.Unlock()
}

// NonTrivial records a case that is non-trivial by the check's rule. key
// identifies the case; equal keys are counted once.
func NonTrivial(key string) {
	h := fnv.New64a()
	h.Write([]byte(key))
	v := h.Sum64()
	mu.Lock()
	if len(hashes) < maxHashes {
		hashes[v] = struct{}{}
	} else if _, ok := hashes[v]; !ok {
		truncated = true
	}
	mu.Unlock()
}

// Sample keeps the case as an example for the evidence file; at most a few
// per class are kept.
func Sample(class string, s interface{}) {
	mu.Lock()
	defer mu.Unlock()
	if sampleKeys[class] >= 2 || len(samples) >= maxSamples {
		return
	}
	sampleKeys[class]++
	samples = append(samples, map[string]interface{}{"class": class, "case": s})
}

// Set stores an additional coverage value.
func Set(key string, v interface{}) {
	mu.Lock()
	extra[key] = v
	mu.Unlock()
}

// Add adds to an additional integer coverage value.
func Add(key string, n int64) {
	mu.Lock()
	cur, _ := extra[key].(int64)
	extra[key] = cur + n
	mu.Unlock()
}

// Rule records the generation / non-triviality rule of a sub-check.
func Rule(r string) {
	mu.Lock()
	for _, x := range rules {
		if x == r {
			mu.Unlock()
			return
		}
	}
	rules = append(rules, r)
	mu.Unlock()
}

// Exhaustive records that a named finite sub-space was enumerated completely.
func Exhaustive(name string) {
	mu.Lock()
	exhaustive[name] = true
	mu.Unlock()
}

// Known records that a listed known finding was observed.
func Known(id string) {
	mu.Lock()
	known[id]++
	mu.Unlock()
}

// Excluded counts a generated case that was steered away from a known finding.
func Excluded(id string) {
	mu.Lock()
	excluded[id]++
	mu.Unlock()
}

// Flush writes the counters to VERIF_EV_OUT (if set).
func Flush() {
	path := os.Getenv("VERIF_EV_OUT")
	if path == "" {
		return
	}
	mu.Lock()
	defer mu.Unlock()
	o := out{Evaluations: evals, Labels: labels, HashesTrunc: truncated, Samples: samples, Extra: extra, Known: known, Excluded: excluded, Rules: rules, Exhaustive: exhaustive}
	for h := range hashes {
		o.Hashes = append(o.Hashes, fmt.Sprintf("%016x", h))
	}
	sort.Strings(o.Hashes)
	b, err := json.Marshal(o)
	if err != nil {
		fmt.Fprintln(os.Stderr, "ev: marshal:", err)
		return
	}
	if err := os.WriteFile(path, b, 0644); err != nil {
		fmt.Fprintln(os.Stderr, "ev: write:", err)
	}
}
